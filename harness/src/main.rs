//! actsx — generic scenario executor.  `actsx run <batch.json> <out.jsonl>`
//!
//! Knows no property: it executes the op list of each scenario against a real engine
//! (built from /repo's working tree with the `verif` feature) and records one History
//! per scenario (client-boundary records merged with the hook trace under one sequence
//! counter).  Everything that decides lives in /verif/mon (Python).
use acts::{verif, ChannelOptions, Engine, EngineBuilder, Executor, ExecutorQuery, Vars, Workflow};
use serde_json::{json, Value};
use std::collections::{BTreeSet, HashMap};
use std::io::Write;
use std::sync::atomic::{AtomicI64, AtomicU64, Ordering};
use std::sync::{Arc, Barrier, Mutex};
use std::time::{Duration, Instant};

type Rec = Arc<Mutex<Vec<Value>>>;

#[derive(Clone)]
struct Shared {
    rec: Rec,
    /// answers matched by a responder rule, waiting for the quiescent client
    pending: Arc<Mutex<Vec<Value>>>,
    /// per (rule, pid) use counter
    counts: Arc<Mutex<HashMap<(usize, String), i64>>>,
    /// client calls in progress
    busy: Arc<AtomicI64>,
    rules: Arc<Vec<Value>>,
    mode: String,
    light: bool,
}

fn lock<T>(m: &Mutex<T>) -> std::sync::MutexGuard<'_, T> {
    m.lock().unwrap_or_else(|e| e.into_inner())
}

fn now_ms() -> i64 {
    let d = std::time::SystemTime::now().duration_since(std::time::UNIX_EPOCH).unwrap();
    d.as_millis() as i64 + verif::clock_offset_ms()
}

fn push(rec: &Rec, mut v: Value) {
    v["seq"] = json!(verif::next_seq());
    lock(rec).push(v);
}

fn s<'a>(v: &'a Value, k: &str, d: &'a str) -> &'a str {
    v.get(k).and_then(|x| x.as_str()).unwrap_or(d)
}

fn parse_action(name: &str) -> Option<acts::Action> {
    serde_json::from_value(json!({"pid":"","tid":"","event":name,"options":{}})).ok()
}

fn short(e: &str) -> String {
    e.chars().take(200).collect()
}

fn do_action(ex: &Executor, sh: &Shared, pid: &str, tid: &str, action: &str, options: &Value, src: &str) -> (bool, Option<String>) {
    sh.busy.fetch_add(1, Ordering::SeqCst);
    let call = verif::next_seq();
    let res = match parse_action(action) {
        Some(a) => ex.act().do_action(pid, tid, a.event, &options.clone().into()).map_err(|e| e.to_string()),
        None => Err(format!("harness: unknown action {action}")),
    };
    let ok = res.is_ok();
    let err = res.err().map(|e| short(&e));
    push(&sh.rec, json!({"t":"action","call":call,"pid":pid,"tid":tid,"action":action,"options":options,"ok":ok,"err":err,"src":src,"thread":verif::thread_tag()}));
    sh.busy.fetch_sub(1, Ordering::SeqCst);
    (ok, err)
}

fn do_ack(ex: &Executor, sh: &Shared, id: &str, src: &str) -> bool {
    sh.busy.fetch_add(1, Ordering::SeqCst);
    let call = verif::next_seq();
    let ok = ex.msg().ack(id).is_ok();
    push(&sh.rec, json!({"t":"ack","call":call,"id":id,"ok":ok,"src":src,"now":now_ms()}));
    sh.busy.fetch_sub(1, Ordering::SeqCst);
    ok
}

fn rule_matches(r: &Value, e: &acts::Message) -> bool {
    let m = &r["match"];
    let f = |k: &str, v: &str| m.get(k).and_then(|x| x.as_str()).map(|x| x == v).unwrap_or(true);
    f("key", &e.key)
        && f("nid", &e.nid)
        && f("uses", &e.uses)
        && f("type", &e.r#type)
        && f("pid", &e.pid)
        && f("tag", &e.tag)
        && m.get("state").and_then(|x| x.as_str()).unwrap_or("created") == e.state.as_ref()
        && m.get("retry").and_then(|x| x.as_i64()).map(|x| x == e.retry_times as i64).unwrap_or(true)
        && m.get("index").map(|x| e.inputs.get::<Value>("options").and_then(|o| o.get("$index").cloned()).as_ref() == Some(x)).unwrap_or(true)
}

fn msg_json(e: &acts::Message, light: bool) -> Value {
    let mut v = json!({"id":e.id,"pid":e.pid,"tid":e.tid,"nid":e.nid,"mid":e.mid,"name":e.name,"type":e.r#type,"state":e.state.as_ref(),"key":e.key,
        "uses":e.uses,"tag":e.tag,"model_tag":e.model.tag,"retry":e.retry_times,"start_time":e.start_time,"end_time":e.end_time});
    if !light {
        v["inputs"] = json!(e.inputs);
        v["outputs"] = json!(e.outputs);
    }
    v
}

fn open_channel(engine: &Engine, sh: &Shared, c: &Value, respond: bool) -> Arc<acts::Channel> {
    let d = ChannelOptions::default();
    let g = |k: &str, dv: &str| c.get(k).and_then(|x| x.as_str()).unwrap_or(dv).to_string();
    let opts = ChannelOptions {
        id: g("id", &d.id),
        ack: c.get("ack").and_then(|x| x.as_bool()).unwrap_or(false),
        r#type: g("type", "*"),
        state: g("state", "*"),
        tag: g("tag", "*"),
        key: g("key", "*"),
        uses: g("uses", "*"),
    };
    let chan = engine.channel_with_options(&opts);
    let (cid, cgen) = (opts.id.clone(), c.get("gen").cloned().unwrap_or(json!(0)));
    let ex = engine.executor();
    let events = c.get("events").and_then(|x| x.as_bool()).unwrap_or(true);
    {
        let (sh, cid, cgen, ex) = (sh.clone(), cid.clone(), cgen.clone(), ex.clone());
        let ack = opts.ack;
        chan.on_message(move |e| {
            let stored = if ack { Some(ex.msg().get(&e.id).is_ok()) } else { None };
            let mut v = msg_json(e, sh.light);
            v["t"] = json!("deliver");
            v["chan"] = json!(cid);
            v["gen"] = cgen.clone();
            v["stored"] = json!(stored);
            v["now"] = json!(now_ms());
            push(&sh.rec, v);
            if !respond {
                return;
            }
            for (i, r) in sh.rules.iter().enumerate() {
                if !rule_matches(r, e) {
                    continue;
                }
                {
                    let mut c = lock(&sh.counts);
                    let n = c.entry((i, e.pid.clone())).or_insert(0);
                    if *n >= r.get("times").and_then(|x| x.as_i64()).unwrap_or(1) {
                        continue;
                    }
                    *n += 1;
                }
                let act = s(r, "action", "next");
                let opts = r.get("options").cloned().unwrap_or(json!({}));
                if act == "none" {
                    break;
                }
                if sh.mode == "inline" {
                    if act == "ack" {
                        do_ack(&ex, &sh, &e.id, "inline");
                    } else {
                        do_action(&ex, &sh, &e.pid, &e.tid, act, &opts, "inline");
                    }
                } else {
                    lock(&sh.pending).push(json!({"pid":e.pid,"tid":e.tid,"id":e.id,"action":act,"options":opts,"rule":i,"key":e.key,"nid":e.nid}));
                }
                if !r.get("continue").and_then(|x| x.as_bool()).unwrap_or(false) {
                    break;
                }
            }
        });
    }
    if events {
        for what in ["start", "complete", "error"] {
            let (sh, cid, w) = (sh.clone(), cid.clone(), what.to_string());
            let ack = opts.ack;
            let ex = ex.clone();
            let f = move |e: &acts::Event<acts::Message>| {
                let mut v = msg_json(e, false);
                v["stored"] = json!(if ack { Some(ex.msg().get(&e.id).is_ok()) } else { None });
                v["now"] = json!(now_ms());
                v["t"] = json!("cb");
                v["what"] = json!(w);
                v["chan"] = json!(cid);
                push(&sh.rec, v);
            };
            match what {
                "start" => chan.on_start(f),
                "complete" => chan.on_complete(f),
                _ => chan.on_error(f),
            }
        }
    }
    chan
}

async fn quiesce(sh: &Shared, timeout_ms: u64) -> bool {
    let t0 = Instant::now();
    let mut spins = 0u64;
    loop {
        if verif::inflight() == 0 && sh.busy.load(Ordering::SeqCst) == 0 {
            tokio::task::yield_now().await;
            if verif::inflight() == 0 && sh.busy.load(Ordering::SeqCst) == 0 {
                return true;
            }
        }
        spins += 1;
        if spins % 64 == 0 {
            tokio::time::sleep(Duration::from_micros(20)).await;
        } else {
            tokio::task::yield_now().await;
        }
        if t0.elapsed() > Duration::from_millis(timeout_ms) {
            return false;
        }
    }
}

fn rows_json<T: serde::Serialize>(c: &Arc<dyn acts::DbCollection<Item = T>>) -> Value {
    match c.query(&acts::query::Query::new().set_limit(1_000_000)) {
        Ok(p) => json!(p.rows.iter().map(|r| serde_json::to_value(r).unwrap_or(Value::Null)).collect::<Vec<_>>()),
        Err(e) => json!({"err": e.to_string()}),
    }
}

/// level: "live" | "rows" (live + proc/task rows) | "all" (+ messages, events, models)
fn snapshot(engine: &Engine, level: &str) -> Value {
    let mut v = json!({"live": engine.verif_live(), "trace_len": verif::trace_len(), "now": now_ms(), "inflight": verif::inflight()});
    if level == "rows" || level == "all" || level == "msgs" {
        v["procs"] = rows_json(&engine.verif_procs());
        v["tasks"] = rows_json(&engine.verif_tasks());
    }
    if level == "all" || level == "msgs" {
        v["messages"] = rows_json(&engine.verif_messages());
    }
    if level == "all" {
        v["events"] = rows_json(&engine.verif_events());
        v["models"] = rows_json(&engine.verif_models());
    }
    v
}

fn resolve(engine: &Engine, t: &Value) -> (String, String) {
    let pid = s(t, "pid", "p1").to_string();
    if let Some(tid) = t.get("tid").and_then(|x| x.as_str()) {
        return (pid, tid.to_string());
    }
    let nid = t.get("nid").and_then(|x| x.as_str());
    let key = t.get("key").and_then(|x| x.as_str());
    let kind = t.get("kind").and_then(|x| x.as_str());
    let state = t.get("state").and_then(|x| x.as_str());
    let occ = t.get("occ").and_then(|x| x.as_i64()).unwrap_or(0);
    // look the task up through the API (loads the process if it was evicted, as a real client would)
    if let Some(p) = engine.executor().proc().get_process(&pid) {
        let mut ts = p.tasks();
        ts.sort_by_key(|t| t.timestamp);
        let m: Vec<_> = ts
            .iter()
            .filter(|t| {
                nid.map(|n| t.node().id() == n).unwrap_or(true)
                    && key.map(|k| t.node().key() == k).unwrap_or(true)
                    && kind.map(|k| t.node().kind().to_string() == k).unwrap_or(true)
                    && state.map(|k| t.state().to_string() == k).unwrap_or(true)
            })
            .collect();
        let idx = if occ < 0 { m.len() as i64 + occ } else { occ };
        if idx >= 0 {
            if let Some(t) = m.get(idx as usize) {
                return (pid, t.id.clone());
            }
        }
    }
    (pid, "?unresolved".to_string())
}

async fn build_engine(sc: &Value, dir: &str) -> Result<Engine, String> {
    let e = &sc["engine"];
    let mut toml = format!(
        "tick_interval_secs = {}\nkeep_processes = {}\ncache_cap = {}\nmax_message_retry_times = {}\n",
        e.get("tick_interval_secs").and_then(|x| x.as_i64()).unwrap_or(3600),
        e.get("keep_processes").and_then(|x| x.as_bool()).unwrap_or(true),
        e.get("cache_cap").and_then(|x| x.as_i64()).unwrap_or(1024),
        e.get("max_retry").and_then(|x| x.as_i64()).unwrap_or(20)
    );
    let sqlite = e.get("store").and_then(|x| x.as_str()) == Some("sqlite");
    if sqlite {
        toml += &format!("[sqlite]\ndatabase_url = \"sqlite://{dir}/db.sqlite\"\n");
    }
    let cfg = format!("{dir}/acts.toml");
    std::fs::write(&cfg, toml).map_err(|e| e.to_string())?;
    let mut b = EngineBuilder::new().set_config_source(std::path::Path::new(&cfg));
    if sqlite {
        b = b.add_plugin(&acts_store_sqlite::SqliteStore);
    }
    let engine = b.build().await.map_err(|e| e.to_string())?.start();
    // packages registered by the application (Extender::register_package): {"name", "run_as": "msg" | "irq"}
    for p in sc.get("packages").and_then(|x| x.as_array()).cloned().unwrap_or_default() {
        let name: &'static str = Box::leak(s(&p, "name", "app.x").to_string().into_boxed_str());
        let meta = acts::ActPackageMeta {
            name,
            desc: "",
            icon: "",
            doc: "",
            version: "0.1.0",
            schema: json!({"type": ["object", "null", "string", "number", "array", "boolean"]}),
            run_as: if s(&p, "run_as", "msg") == "irq" { acts::ActRunAs::Irq } else { acts::ActRunAs::Msg },
            resources: vec![],
            catalog: acts::ActPackageCatalog::App,
        };
        engine.extender().register_package(&meta).map_err(|e| e.to_string())?;
    }
    Ok(engine)
}

fn build_query(a: &Value) -> acts::query::Query {
    use acts::query::{Cond, Expr, Query};
    let mut q = Query::new();
    for c in a["conds"].as_array().cloned().unwrap_or_default() {
        let mut cond = if c["type"] == "or" { Cond::or() } else { Cond::and() };
        for e in c["exprs"].as_array().cloned().unwrap_or_default() {
            let (k, v) = (e["key"].as_str().unwrap_or(""), e["value"].clone());
            cond = cond.push(match e["op"].as_str().unwrap_or("eq") {
                "eq" => Expr::eq(k, v),
                "ne" => Expr::ne(k, v),
                "lt" => Expr::lt(k, v),
                "le" => Expr::le(k, v),
                "gt" => Expr::gt(k, v),
                _ => Expr::ge(k, v),
            });
        }
        q = q.push(cond);
    }
    for o in a["order"].as_array().cloned().unwrap_or_default() {
        q = q.push_order(o[0].as_str().unwrap_or("id"), o[1].as_bool().unwrap_or(false));
    }
    q.set_offset(a["offset"].as_u64().unwrap_or(0) as usize).set_limit(a["limit"].as_u64().unwrap_or(100000) as usize)
}

fn store_op(engine: &Engine, op: &Value) -> Value {
    fn apply<T: serde::Serialize + serde::de::DeserializeOwned>(c: &Arc<dyn acts::DbCollection<Item = T>>, op: &Value) -> Value {
        std::panic::catch_unwind(std::panic::AssertUnwindSafe(|| {
            let parse = || serde_json::from_value::<T>(op["arg"].clone());
            match s(op, "call", "") {
                "create" => match parse() {
                    Ok(r) => json!({"ok": c.create(&r).is_ok()}),
                    Err(e) => json!({"harness_err": e.to_string()}),
                },
                "update" => match parse() {
                    Ok(r) => json!({"ok": c.update(&r).is_ok()}),
                    Err(e) => json!({"harness_err": e.to_string()}),
                },
                "delete" => json!({"ok": c.delete(op["arg"].as_str().unwrap_or("")).is_ok()}),
                "purge" => {
                    // delete every record (used to start from an empty collection where the engine pre-registers rows)
                    let mut n = 0;
                    if let Ok(p) = c.query(&acts::query::Query::new().set_limit(1_000_000)) {
                        for r in p.rows.iter() {
                            if let Some(id) = serde_json::to_value(r).ok().and_then(|v| v.get("id").and_then(|x| x.as_str().map(|s| s.to_string()))) {
                                if c.delete(&id).is_ok() {
                                    n += 1;
                                }
                            }
                        }
                    }
                    json!({"purged": n})
                }
                "exists" => json!({"v": c.exists(op["arg"].as_str().unwrap_or("")).ok()}),
                "find" => json!({"v": c.find(op["arg"].as_str().unwrap_or("")).ok().map(|r| serde_json::to_value(r).unwrap_or(Value::Null))}),
                _ => match c.query(&build_query(&op["arg"])) {
                    Ok(p) => json!({"count": p.count, "page_num": p.page_num, "page_count": p.page_count, "page_size": p.page_size,
                        "rows": p.rows.iter().map(|r| serde_json::to_value(r).unwrap_or(Value::Null)).collect::<Vec<_>>()}),
                    Err(e) => json!({"err": short(&e.to_string())}),
                },
            }
        }))
        .unwrap_or(json!({"panic": true}))
    }
    match s(op, "coll", "") {
        "tasks" => apply(&engine.verif_tasks(), op),
        "procs" => apply(&engine.verif_procs(), op),
        "messages" => apply(&engine.verif_messages(), op),
        "models" => apply(&engine.verif_models(), op),
        "events" => apply(&engine.verif_events(), op),
        _ => apply(&engine.verif_packages(), op),
    }
}

fn yaml_of(v: &Value) -> String {
    if v.is_string() {
        v.as_str().unwrap().to_string()
    } else {
        v.to_string()
    }
}

fn roundtrip(y: &str) -> Value {
    std::panic::catch_unwind(|| {
        let w = match Workflow::from_yml(y) {
            Ok(w) => w,
            Err(e) => return json!({"parse_err": e.to_string()}),
        };
        let v1 = serde_json::to_value(&w).unwrap_or(Value::Null);
        let v2 = w.to_yml().ok().and_then(|y| Workflow::from_yml(&y).ok()).map(|w| serde_json::to_value(&w).unwrap_or(Value::Null));
        let v3 = w.to_json().ok().and_then(|j| Workflow::from_json(&j).ok()).map(|w| serde_json::to_value(&w).unwrap_or(Value::Null));
        let valid = w.valid();
        let (yml_eq, json_eq) = (v2.as_ref() == Some(&v1), v3.as_ref() == Some(&v1));
        json!({"v1": v1, "yml_eq": yml_eq, "json_eq": json_eq,
               "v2": if yml_eq { Value::Null } else { json!(v2) }, "v3": if json_eq { Value::Null } else { json!(v3) },
               "valid": valid.is_ok(), "valid_err": valid.err().map(|e| e.to_string()),
               "tree": if w.valid().is_ok() { w.tree_output() } else { String::new() },
               "nodes": if w.valid().is_ok() { verif::tree(&w) } else { Value::Null }})
    })
    .unwrap_or(json!({"panic": true}))
}

fn api_op(ex: &Executor, op: &Value) -> Value {
    let q = ExecutorQuery::new().with_count(100000);
    let ser = |r: Result<Value, String>| match r {
        Ok(v) => json!({"ok": true, "v": v}),
        Err(e) => json!({"ok": false, "err": short(&e)}),
    };
    let tv = |v: Result<Value, serde_json::Error>| v.map_err(|e| e.to_string());
    match s(op, "what", "") {
        "proc_get" => ser(ex.proc().get(s(op, "pid", "")).map_err(|e| e.to_string()).and_then(|p| tv(serde_json::to_value(p)))),
        "proc_list" => ser(ex.proc().list(&q).map_err(|e| e.to_string()).and_then(|p| tv(serde_json::to_value(p.rows)))),
        "task_list" => ser(ex.task().list(&q).map_err(|e| e.to_string()).and_then(|p| tv(serde_json::to_value(p.rows)))),
        "task_get" => ser(ex.task().get(s(op, "pid", ""), s(op, "tid", "")).map_err(|e| e.to_string()).and_then(|p| tv(serde_json::to_value(p)))),
        "msg_list" => ser(ex.msg().list(&q).map_err(|e| e.to_string()).and_then(|p| tv(serde_json::to_value(p.rows)))),
        "msg_get" => ser(ex.msg().get(s(op, "id", "")).map_err(|e| e.to_string()).and_then(|p| tv(serde_json::to_value(p)))),
        "model_list" => ser(ex.model().list(&q).map_err(|e| e.to_string()).and_then(|p| tv(serde_json::to_value(p.rows)))),
        w => json!({"unknown_api": w}),
    }
}

struct Rig {
    sc: Value,
    dir: String,
    sh: Shared,
    engine: Engine,
    chans: HashMap<String, Arc<acts::Channel>>,
    chan_defs: Vec<Value>,
    qp: i64,
    qto: u64,
}

impl Rig {
    fn open_all(&mut self) {
        for (i, c) in self.chan_defs.clone().iter().enumerate() {
            let ch = open_channel(&self.engine, &self.sh, c, i == 0);
            self.chans.insert(s(c, "id", "main").to_string(), ch);
        }
    }

    async fn settle(&self) -> bool {
        // let the engine's own start-up work (first interval tick) get going before the first quiescence test
        for _ in 0..3 {
            tokio::task::yield_now().await;
        }
        tokio::time::sleep(Duration::from_micros(300)).await;
        quiesce(&self.sh, self.qto).await
    }

    async fn restart(&mut self) -> Result<(), String> {
        for (_, c) in self.chans.drain() {
            c.close();
        }
        self.engine.close();
        if !quiesce(&self.sh, self.qto).await {
            return Err("inconclusive".into());
        }
        self.engine = build_engine(&self.sc, &self.dir).await?;
        self.open_all();
        if !self.settle().await {
            return Err("inconclusive".into());
        }
        Ok(())
    }

    fn live_pids(&self) -> Vec<String> {
        self.engine.verif_live().as_array().map(|a| a.iter().filter_map(|p| p["pid"].as_str().map(|s| s.to_string())).collect()).unwrap_or_default()
    }
}

fn in_list(v: &Value, k: &str, n: i64) -> bool {
    v.get(k).and_then(|x| x.as_array()).map(|a| a.iter().any(|x| x.as_i64() == Some(n))).unwrap_or(false)
}

async fn run_scenario(sc: &Value, dir: &str, rec: &Rec) -> String {
    let rsp = &sc["responder"];
    let mode = s(rsp, "mode", "quiescent").to_string();
    let sh = Shared {
        rec: rec.clone(),
        pending: Arc::new(Mutex::new(vec![])),
        counts: Arc::new(Mutex::new(HashMap::new())),
        busy: Arc::new(AtomicI64::new(0)),
        rules: Arc::new(rsp.get("rules").and_then(|x| x.as_array()).cloned().unwrap_or_default()),
        mode: mode.clone(),
        light: sc.get("light_messages").and_then(|x| x.as_bool()).unwrap_or(false),
    };
    let max_rounds = rsp.get("max_rounds").and_then(|x| x.as_i64()).unwrap_or(200);
    let order = s(rsp, "order", "fifo").to_string();
    let confirm_us = sc.get("confirm_us").and_then(|x| x.as_u64()).unwrap_or(500);
    let mut rng = sc.get("seed").and_then(|x| x.as_u64()).unwrap_or(1).wrapping_mul(0x9E3779B97F4A7C15) | 1;
    let qto = sc.get("quiesce_timeout_ms").and_then(|x| x.as_u64()).unwrap_or(10_000);
    let engine = match build_engine(sc, dir).await {
        Ok(e) => e,
        Err(e) => {
            push(rec, json!({"t":"harness_error","what":"build_engine","err":e}));
            return "harness_error".into();
        }
    };
    let chan_defs = sc.get("channels").and_then(|x| x.as_array()).cloned().unwrap_or(vec![json!({"id":"main"})]);
    let mut start_seen: HashMap<String, i64> = HashMap::new();
    let mut rig = Rig { sc: sc.clone(), dir: dir.to_string(), sh: sh.clone(), engine, chans: HashMap::new(), chan_defs, qp: 0, qto };
    rig.open_all();
    if !rig.settle().await {
        return "inconclusive".into();
    }
    for m in sc.get("models").and_then(|x| x.as_array()).cloned().unwrap_or_default() {
        let y = yaml_of(&m);
        let r = Workflow::from_yml(&y).map_err(|e| e.to_string()).and_then(|w| rig.engine.executor().model().deploy(&w).map_err(|e| e.to_string()));
        push(rec, json!({"t":"deploy","ok":r.is_ok(),"err":r.err()}));
    }
    let faults = sc.get("faults").cloned().unwrap_or(json!({}));
    let mut status = "ok".to_string();
    'ops: for (opi, op) in sc["ops"].as_array().cloned().unwrap_or_default().iter().enumerate() {
        let ex = rig.engine.executor();
        let name = s(op, "op", "");
        let res: Value = match name {
            "start" => {
                let vars: Vars = op.get("vars").cloned().unwrap_or(json!({})).into();
                sh.busy.fetch_add(1, Ordering::SeqCst);
                let r = ex.proc().start(s(op, "mid", ""), &vars);
                sh.busy.fetch_sub(1, Ordering::SeqCst);
                json!({"ok": r.is_ok(), "pid": r.as_ref().ok(), "err": r.as_ref().err().map(|e| short(&e.to_string()))})
            }
            "starts" => {
                // start several processes from racing OS threads
                let items = op["items"].as_array().cloned().unwrap_or_default();
                let k = op.get("threads").and_then(|x| x.as_u64()).unwrap_or(2).max(1) as usize;
                // dups: further starts (meant to repeat a pid of `items`), each from its own thread after delay_us
                let dups = op.get("dups").and_then(|x| x.as_array()).cloned().unwrap_or_default();
                let bar = Arc::new(Barrier::new(k + dups.len()));
                let h = tokio::runtime::Handle::current();
                let out: Arc<Mutex<Vec<Value>>> = Arc::new(Mutex::new(vec![]));
                let dout: Arc<Mutex<Vec<Value>>> = Arc::new(Mutex::new(vec![]));
                sh.busy.fetch_add(1, Ordering::SeqCst);
                let mut hs: Vec<_> = dups
                    .iter()
                    .cloned()
                    .enumerate()
                    .map(|(i, it)| {
                        let (ex, bar, h, dout) = (ex.clone(), bar.clone(), h.clone(), dout.clone());
                        std::thread::spawn(move || {
                            let _g = h.enter();
                            bar.wait();
                            let d = it.get("delay_us").and_then(|x| x.as_u64()).unwrap_or(0);
                            if d > 0 {
                                std::thread::sleep(Duration::from_micros(d));
                            }
                            let vars: Vars = it.get("vars").cloned().unwrap_or(json!({})).into();
                            let r = ex.proc().start(s(&it, "mid", ""), &vars);
                            lock(&dout).push(json!({"i": i, "ok": r.is_ok(), "err": r.as_ref().err().map(|e| short(&e.to_string()))}));
                        })
                    })
                    .collect();
                let hs2: Vec<_> = (0..k)
                    .map(|ti| {
                        let (ex, bar, h, out) = (ex.clone(), bar.clone(), h.clone(), out.clone());
                        let mine: Vec<(usize, Value)> = items.iter().cloned().enumerate().filter(|(i, _)| i % k == ti).collect();
                        std::thread::spawn(move || {
                            let _g = h.enter();
                            bar.wait();
                            for (i, it) in mine {
                                let vars: Vars = it.get("vars").cloned().unwrap_or(json!({})).into();
                                let r = ex.proc().start(s(&it, "mid", ""), &vars);
                                lock(&out).push(json!({"i": i, "ok": r.is_ok(), "pid": r.as_ref().ok(), "err": r.as_ref().err().map(|e| short(&e.to_string()))}));
                            }
                        })
                    })
                    .collect();
                hs.extend(hs2);
                let _ = tokio::task::spawn_blocking(move || hs.into_iter().for_each(|h| { let _ = h.join(); })).await;
                sh.busy.fetch_sub(1, Ordering::SeqCst);
                let mut v = lock(&out).clone();
                v.sort_by_key(|x| x["i"].as_u64());
                let mut dv = lock(&dout).clone();
                dv.sort_by_key(|x| x["i"].as_u64());
                json!({"results": v, "dups": dv})
            }
            "quiesce" => {
                if !quiesce(&sh, qto).await {
                    status = "inconclusive".into();
                    break 'ops;
                }
                json!({"ok": true})
            }
            "run" => {
                let snap = s(op, "snap", "none").to_string();
                let mut rounds = 0;
                let mut late = 0;
                loop {
                    if !quiesce(&sh, qto).await {
                        status = "inconclusive".into();
                        break 'ops;
                    }
                    let next = {
                        let mut p = lock(&sh.pending);
                        if p.is_empty() || rounds >= max_rounds {
                            None
                        } else {
                            let i = match order.as_str() {
                                "lifo" => p.len() - 1,
                                "seeded" => {
                                    rng ^= rng << 13;
                                    rng ^= rng >> 7;
                                    rng ^= rng << 17;
                                    (rng % p.len() as u64) as usize
                                }
                                _ => 0,
                            };
                            Some(p.remove(i))
                        }
                    };
                    if next.is_none() {
                        // nothing to answer: confirm the quiescence after a short real-time grace
                        let (tl, np) = (verif::trace_len(), lock(&sh.pending).len());
                        tokio::time::sleep(Duration::from_micros(confirm_us)).await;
                        if verif::inflight() != 0 || verif::trace_len() != tl || lock(&sh.pending).len() != np {
                            late += 1;
                            push(rec, json!({"t":"late","n":late}));
                            if late < 50 {
                                continue;
                            }
                        }
                    }
                    rig.qp += 1;
                    push(rec, json!({"t":"qp","n":rig.qp,"final":next.is_none(),"snap": if snap != "none" { snapshot(&rig.engine, &snap) } else { Value::Null }}));
                    let Some(a) = next else { break };
                    if in_list(&faults, "evict_at", rig.qp) {
                        let pids = rig.live_pids();
                        for pid in &pids {
                            rig.engine.verif_uncache(pid);
                        }
                        push(rec, json!({"t":"fault","what":"evict","qp":rig.qp,"pids":pids}));
                    }
                    if in_list(&faults, "restart_at", rig.qp) {
                        if let Err(e) = rig.restart().await {
                            push(rec, json!({"t":"fault","what":"restart_failed","err":e}));
                            status = "inconclusive".into();
                            break 'ops;
                        }
                        push(rec, json!({"t":"fault","what":"restart","qp":rig.qp}));
                    }
                    rounds += 1;
                    let ex = rig.engine.executor();
                    if a["action"] == "ack" {
                        do_ack(&ex, &sh, s(&a, "id", ""), "client");
                    } else {
                        do_action(&ex, &sh, s(&a, "pid", ""), s(&a, "tid", ""), s(&a, "action", "next"), &a["options"], "client");
                    }
                }
                json!({"rounds": rounds, "late": late, "left": lock(&sh.pending).len()})
            }
            "snapshot" => snapshot(&rig.engine, s(op, "level", "rows")),
            "act" => {
                let (pid, tid) = resolve(&rig.engine, &op["target"]);
                let (ok, err) = do_action(&ex, &sh, &pid, &tid, s(op, "action", "next"), &op.get("options").cloned().unwrap_or(json!({})), "op");
                json!({"ok": ok, "err": err, "pid": pid, "tid": tid})
            }
            "race" | "twins" => {
                // several client calls released together by a barrier, each on its own OS thread
                let calls: Vec<Value> = if name == "twins" {
                    let k = op.get("threads").and_then(|x| x.as_u64()).unwrap_or(2) as usize;
                    (0..k).map(|_| op.clone()).collect()
                } else {
                    op["calls"].as_array().cloned().unwrap_or_default()
                };
                let resolved: Vec<(String, String, String, Value)> = calls
                    .iter()
                    .map(|c| {
                        let (pid, tid) = resolve(&rig.engine, &c["target"]);
                        (pid, tid, s(c, "action", "next").to_string(), c.get("options").cloned().unwrap_or(json!({})))
                    })
                    .collect();
                let k = resolved.len().max(1);
                if op.get("forget").and_then(|x| x.as_bool()).unwrap_or(false) {
                    // no instance of the processes is in memory when the calls are released: every one of them has
                    // to load its process, all at the same moment
                    let mut pids: Vec<&String> = resolved.iter().map(|r| &r.0).collect();
                    pids.sort();
                    pids.dedup();
                    for pid in pids {
                        rig.engine.verif_uncache(pid);
                    }
                }
                let bar = Arc::new(Barrier::new(k));
                let h = tokio::runtime::Handle::current();
                sh.busy.fetch_add(1, Ordering::SeqCst);
                let hs: Vec<_> = resolved
                    .iter()
                    .cloned()
                    .map(|(pid, tid, action, options)| {
                        let (ex, sh, bar, h) = (ex.clone(), sh.clone(), bar.clone(), h.clone());
                        std::thread::spawn(move || {
                            let _g = h.enter();
                            bar.wait();
                            do_action(&ex, &sh, &pid, &tid, &action, &options, "race").0
                        })
                    })
                    .collect();
                let oks = tokio::task::spawn_blocking(move || hs.into_iter().map(|h| h.join().unwrap_or(false)).collect::<Vec<bool>>()).await.unwrap_or_default();
                sh.busy.fetch_sub(1, Ordering::SeqCst);
                json!({"oks": oks.iter().filter(|x| **x).count(), "results": oks, "threads": k,
                       "targets": resolved.iter().map(|r| json!([r.0, r.1, r.2])).collect::<Vec<_>>()})
            }
            "tick" => {
                let before = now_ms();
                rig.engine.verif_tick();
                if !quiesce(&sh, qto).await {
                    status = "inconclusive".into();
                    break 'ops;
                }
                json!({"t_before": before, "t_after": now_ms()})
            }
            "tick_race" => {
                // one tick released together with client calls (acks of delivered messages and actions), each on its
                // own OS thread: the tick reads and rewrites message rows while the clients change their status
                let before = now_ms();
                let sel = &op["select"];
                let ids: Vec<String> = if sel.is_object() {
                    lock(rec)
                        .iter()
                        .filter(|r| r["t"] == "deliver" && ["chan", "key", "state", "pid", "type", "id", "nid"].iter().all(|k| sel.get(*k).map(|v| &r[*k] == v).unwrap_or(true)))
                        .map(|r| r["id"].as_str().unwrap_or("").to_string())
                        .collect::<BTreeSet<_>>()
                        .into_iter()
                        .collect()
                } else {
                    vec![]
                };
                let calls: Vec<(String, String, String, Value)> = op["calls"]
                    .as_array()
                    .cloned()
                    .unwrap_or_default()
                    .iter()
                    .map(|c| {
                        let (pid, tid) = resolve(&rig.engine, &c["target"]);
                        (pid, tid, s(c, "action", "next").to_string(), c.get("options").cloned().unwrap_or(json!({})))
                    })
                    .collect();
                let spin = op.get("spin_us").and_then(|x| x.as_u64()).unwrap_or(0);
                let bar = Arc::new(Barrier::new(2 + calls.len()));
                let h = tokio::runtime::Handle::current();
                sh.busy.fetch_add(1, Ordering::SeqCst);
                let mut hs = vec![];
                {
                    let (ex, sh, bar, h, ids) = (ex.clone(), sh.clone(), bar.clone(), h.clone(), ids.clone());
                    hs.push(std::thread::spawn(move || {
                        let _g = h.enter();
                        bar.wait();
                        let mut n = 0;
                        for id in &ids {
                            if spin > 0 {
                                std::thread::sleep(std::time::Duration::from_micros(spin));
                            }
                            if do_ack(&ex, &sh, id, "race") {
                                n += 1;
                            }
                        }
                        n > 0
                    }));
                }
                for (pid, tid, action, options) in calls.iter().cloned() {
                    let (ex, sh, bar, h) = (ex.clone(), sh.clone(), bar.clone(), h.clone());
                    hs.push(std::thread::spawn(move || {
                        let _g = h.enter();
                        bar.wait();
                        do_action(&ex, &sh, &pid, &tid, &action, &options, "race").0
                    }));
                }
                {
                    let bar = bar.clone();
                    let _ = tokio::task::spawn_blocking(move || bar.wait()).await;
                }
                rig.engine.verif_tick();
                let oks = tokio::task::spawn_blocking(move || hs.into_iter().map(|h| h.join().unwrap_or(false)).collect::<Vec<bool>>()).await.unwrap_or_default();
                sh.busy.fetch_sub(1, Ordering::SeqCst);
                if !quiesce(&sh, qto).await {
                    status = "inconclusive".into();
                    break 'ops;
                }
                json!({"t_before": before, "t_after": now_ms(), "acked": ids, "results": oks})
            }
            "advance" => {
                verif::advance_clock_ms(op["ms"].as_i64().unwrap_or(0));
                json!({"now": now_ms(), "offset": verif::clock_offset_ms()})
            }
            "advance_to" => {
                // move the virtual clock so that (now - start_time of the target task) == ms
                let (pid, tid) = resolve(&rig.engine, &op["target"]);
                // the start time is the one seen when the task was first looked at: the client's idea of "how long has it
                // been open" does not follow what a reloaded engine may say
                let key = format!("{pid}:{tid}");
                let seen = start_seen.get(&key).cloned();
                let start = seen.or_else(|| rig.engine.executor().proc().get_process(&pid).and_then(|p| p.task(&tid)).map(|t| t.start_time()));
                if let Some(st) = start {
                    start_seen.insert(key, st);
                } else {
                    // still touch the process like before (a client looking at it loads it)
                    let _ = rig.engine.executor().proc().get_process(&pid);
                }
                match start {
                    Some(st) => {
                        let want = st + op["ms"].as_i64().unwrap_or(0);
                        let d = want - now_ms();
                        verif::advance_clock_ms(d);
                        json!({"ok": true, "start": st, "now": now_ms(), "delta": d})
                    }
                    None => json!({"ok": false}),
                }
            }
            "evict" => {
                let pids = match op.get("pid").and_then(|x| x.as_str()) {
                    Some(p) => vec![p.to_string()],
                    None => rig.live_pids(),
                };
                for pid in &pids {
                    rig.engine.verif_uncache(pid);
                }
                json!({"ok": true, "pids": pids})
            }
            "restart" => match rig.restart().await {
                Ok(()) => json!({"ok": true}),
                Err(e) => {
                    push(rec, json!({"t":"fault","what":"restart_failed","err":e}));
                    status = "inconclusive".into();
                    break 'ops;
                }
            },
            "chan_open" => {
                let ch = open_channel(&rig.engine, &sh, &op["chan"], false);
                rig.chans.insert(s(&op["chan"], "id", "").to_string(), ch);
                json!({"ok": true})
            }
            "chan_close" => {
                if let Some(c) = rig.chans.get(s(op, "id", "")) {
                    c.close();
                }
                json!({"ok": true})
            }
            "unsub" => json!({"ok": ex.msg().unsub(s(op, "id", "")).is_ok()}),
            "ack" => {
                // ack every delivered message matching select {chan?, key?, state?, pid?, type?, id?}
                let sel = &op["select"];
                let ids: Vec<String> = lock(rec)
                    .iter()
                    .filter(|r| r["t"] == "deliver" && ["chan", "key", "state", "pid", "type", "id", "nid"].iter().all(|k| sel.get(*k).map(|v| &r[*k] == v).unwrap_or(true)))
                    .map(|r| r["id"].as_str().unwrap_or("").to_string())
                    .collect::<BTreeSet<_>>()
                    .into_iter()
                    .collect();
                let mut n = 0;
                for id in &ids {
                    if do_ack(&ex, &sh, id, "op") {
                        n += 1;
                    }
                }
                json!({"acked": ids, "n": n})
            }
            "msg_redo" => json!({"ok": ex.msg().redo().is_ok(), "now": now_ms()}),
            "msg_clear" => json!({"ok": ex.msg().clear(op.get("pid").and_then(|x| x.as_str()).map(|s| s.to_string())).is_ok()}),
            "msg_rm" => json!({"ok": ex.msg().rm(s(op, "id", "")).is_ok()}),
            "deploy" => {
                let r = Workflow::from_yml(&yaml_of(&op["yaml"])).map_err(|e| e.to_string()).and_then(|w| ex.model().deploy(&w).map_err(|e| e.to_string()));
                json!({"ok": r.is_ok(), "err": r.err().map(|e| short(&e))})
            }
            "model_rm" => json!({"ok": ex.model().rm(s(op, "id", "")).is_ok()}),
            "model_get" => {
                let r = ex.model().get(s(op, "id", ""), s(op, "fmt", "text"));
                json!({"ok": r.is_ok(), "ver": r.as_ref().ok().map(|m| m.ver), "data": r.as_ref().ok().map(|m| m.data.clone()), "err": r.as_ref().err().map(|e| short(&e.to_string()))})
            }
            "evt_list" => {
                let r = ex.evt().list(&ExecutorQuery::new().with_count(100000));
                json!({"rows": r.ok().map(|p| p.rows.iter().map(|e| json!({"id":e.id,"mid":e.mid,"ver":e.ver,"uses":e.uses,"params":e.params,"name":e.name})).collect::<Vec<_>>())})
            }
            "roundtrip" => roundtrip(&yaml_of(&op["yaml"])),
            "store" => store_op(&rig.engine, op),
            "api" => api_op(&ex, op),
            "probe_acts" => {
                // "nothing can later be acted on": once the process has ended (and, optionally, has been dropped from the
                // cache so that the client's call loads it from the store) try to complete every act task it has
                let pid = s(op, "pid", "p1").to_string();
                if op.get("evict").and_then(|x| x.as_bool()).unwrap_or(false) {
                    rig.engine.verif_uncache(&pid);
                }
                let mut tried = 0;
                let mut accepted: Vec<Value> = vec![];
                let mut ended = false;
                if let Some(p) = rig.engine.executor().proc().get_process(&pid) {
                    ended = p.state().is_completed();
                    if ended {
                        let mut ts = p.tasks();
                        ts.sort_by_key(|t| t.timestamp);
                        for t in ts.iter().filter(|t| t.node().kind().to_string() == "act") {
                            tried += 1;
                            let state = t.state().to_string();
                            let (ok, _) = do_action(&ex, &sh, &pid, &t.id, s(op, "action", "next"), &json!({}), "probe");
                            if ok {
                                accepted.push(json!({"tid": t.id, "nid": t.node().id(), "state": state}));
                            }
                        }
                    }
                }
                json!({"ended": ended, "tried": tried, "accepted": accepted})
            }
            "lru_drop" => {
                // what a full cache does at any moment: the process leaves the LRU, an instance in use stays alive
                let pid = s(op, "pid", "p1").to_string();
                rig.engine.verif_lru_drop(&pid);
                json!({"ok": true})
            }
            "touch" => {
                // a client looks the process up through the API: loads it into the cache when it is not there
                let pid = s(op, "pid", "p1").to_string();
                let p = rig.engine.executor().proc().get_process(&pid);
                json!({"found": p.is_some(), "tasks": p.map(|p| p.tasks().len())})
            }
            "yield" => {
                // let the other tasks of the runtime take n turns (on a current-thread runtime: exactly n rounds of
                // the run queue), without waiting for quiescence
                for _ in 0..op["n"].as_u64().unwrap_or(1) {
                    tokio::task::yield_now().await;
                }
                json!({"ok": true})
            }
            "sleep_ms" => {
                tokio::time::sleep(Duration::from_millis(op["ms"].as_u64().unwrap_or(1))).await;
                json!({"ok": true})
            }
            _ => json!({"unknown_op": name}),
        };
        push(rec, json!({"t":"op","i":opi,"op":name,"res":res}));
    }
    for (_, c) in rig.chans.drain() {
        c.close();
    }
    rig.engine.close();
    status
}

fn main() {
    let args: Vec<String> = std::env::args().collect();
    if args.len() < 4 || args[1] != "run" {
        eprintln!("usage: actsx run <batch.json> <out.jsonl>");
        std::process::exit(2);
    }
    let batch: Vec<Value> = serde_json::from_str(&std::fs::read_to_string(&args[2]).expect("read batch")).expect("parse batch");
    let out = Arc::new(Mutex::new(std::io::BufWriter::new(std::fs::File::create(&args[3]).expect("create out"))));
    let base = if std::path::Path::new("/dev/shm").is_dir() { "/dev/shm".to_string() } else { std::env::temp_dir().to_string_lossy().to_string() };
    let panics: Arc<Mutex<Vec<String>>> = Arc::new(Mutex::new(vec![]));
    {
        let p = panics.clone();
        std::panic::set_hook(Box::new(move |info| {
            lock(&p).push(info.to_string().chars().take(300).collect());
        }));
    }
    // per-scenario wall-clock watchdog: a scenario that hangs is reported and the process exits,
    // the driver re-runs the rest of the batch in a new process
    let current: Arc<(AtomicU64, Mutex<(Value, Instant, String)>)> = Arc::new((AtomicU64::new(0), Mutex::new((Value::Null, Instant::now(), String::new()))));
    {
        let (cur, out) = (current.clone(), out.clone());
        std::thread::spawn(move || loop {
            std::thread::sleep(Duration::from_millis(250));
            let g = lock(&cur.1);
            let limit = g.0.get("watchdog_ms").and_then(|x| x.as_u64()).unwrap_or(30_000);
            if cur.0.load(Ordering::SeqCst) == 1 && g.1.elapsed() > Duration::from_millis(limit) {
                let line = json!({"id": g.0.get("id"), "status": "timeout", "wall_ms": g.1.elapsed().as_millis() as u64, "panics": [], "records": []});
                let mut o = lock(&out);
                let _ = writeln!(o, "{line}");
                let _ = o.flush();
                let _ = std::fs::remove_dir_all(&g.2);
                std::process::exit(86);
            }
        });
    }
    for (i, sc) in batch.iter().enumerate() {
        let dir = format!("{base}/actsx-{}-{i}", std::process::id());
        std::fs::create_dir_all(&dir).expect("scenario dir");
        verif::reset();
        let ch = &sc["runtime"]["chaos"];
        verif::set_chaos(ch.get("seed").and_then(|x| x.as_u64()).unwrap_or(0), ch.get("max_yields").and_then(|x| x.as_u64()).unwrap_or(0));
        verif::set_pause(ch.get("pause_us").and_then(|x| x.as_u64()).unwrap_or(0));
        verif::set_pause_only(ch.get("pause_only").and_then(|x| x.as_str()));
        lock(&panics).clear();
        let rec: Rec = Arc::new(Mutex::new(vec![]));
        let workers = sc["runtime"].get("workers").and_then(|x| x.as_u64()).unwrap_or(2) as usize;
        let rt = if s(&sc["runtime"], "flavor", "current") == "current" {
            tokio::runtime::Builder::new_current_thread().enable_all().build().expect("rt")
        } else {
            tokio::runtime::Builder::new_multi_thread().worker_threads(workers.max(1)).enable_all().build().expect("rt")
        };
        let t0 = Instant::now();
        {
            let mut g = lock(&current.1);
            *g = (json!({"id": sc.get("id"), "watchdog_ms": sc.get("watchdog_ms")}), t0, dir.clone());
            current.0.store(1, Ordering::SeqCst);
        }
        let status = match std::panic::catch_unwind(std::panic::AssertUnwindSafe(|| rt.block_on(run_scenario(sc, &dir, &rec)))) {
            Ok(s) => s,
            Err(_) => "panic".to_string(),
        };
        current.0.store(0, Ordering::SeqCst);
        rt.shutdown_timeout(Duration::from_millis(200));
        let mut records = lock(&rec).clone();
        for e in verif::take_trace() {
            records.push(match e {
                verif::Event::State { seq, pid, tid, nid, kind, old, new, via, thread } => json!({"t":"state","seq":seq,"pid":pid,"tid":tid,"nid":nid,"kind":kind,"old":old,"new":new,"via":via,"thread":thread}),
                verif::Event::Create { seq, pid, tid, nid, kind, prev, level } => json!({"t":"create","seq":seq,"pid":pid,"tid":tid,"nid":nid,"kind":kind,"prev":prev,"level":level}),
                verif::Event::Exec { seq, pid, tid, phase, thread } => json!({"t":"exec","seq":seq,"pid":pid,"tid":tid,"phase":phase,"thread":thread}),
                verif::Event::Emit { seq, what, id, pid, tid, state } => json!({"t":"emit","seq":seq,"what":what,"id":id,"pid":pid,"tid":tid,"state":state}),
            });
        }
        records.sort_by_key(|v| v.get("seq").and_then(|s| s.as_u64()).unwrap_or(u64::MAX));
        let line = json!({"id": sc.get("id"), "status": status, "wall_ms": t0.elapsed().as_millis() as u64, "panics": *lock(&panics), "records": records});
        {
            let mut o = lock(&out);
            writeln!(o, "{line}").expect("write history");
            o.flush().expect("flush");
        }
        let _ = std::fs::remove_dir_all(&dir);
    }
}
