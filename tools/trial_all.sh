#!/bin/bash
# tools/trial_all.sh [seed dirs...]   run the checks of the properties each seeded change claims to break against a scratch
# copy that has the change applied; results in <seed>/trial-<ID>.txt (first lines of the check's output)
cd "$(dirname "$0")/.."
dirs=("$@"); [ ${#dirs[@]} -eq 0 ] && dirs=(seeded/*/)
for d in "${dirs[@]}"; do
  d=${d%/}
  props=$(python3 -c "import json;m=json.load(open('$d/meta.json'));print(' '.join(m.get('properties') or [m['property']]))")
  for p in $props; do echo "$d $p"; done
done | xargs -P ${TRIAL_PAR:-3} -L 1 bash -c 'd=$0; p=$1; tools/seedtrial.sh trial $d $p ${TRIAL_TIER:-quick} > $d/trial-$p.txt 2>&1; echo "$d $p: $(grep -c "^VIOLATION" $d/trial-$p.txt) violations; $(head -1 $d/trial-$p.txt | cut -c1-120)"'
