#!/usr/bin/env python3
"""print the markdown table of DESIGN.md section 8 from seeded/*/meta.json and trial-*.txt"""
import glob, json, os, re
rows = []
for d in sorted(glob.glob('/verif/seeded/*/')):
    name = os.path.basename(d.rstrip('/'))
    m = json.load(open(d + 'meta.json'))
    val = ''
    if os.path.exists(d + 'validation.txt'):
        val = (open(d + 'validation.txt').read().strip().splitlines() or ['(running)'])[-1]
    caught = []
    for f in sorted(glob.glob(d + 'trial-*.txt')):
        pid = re.search(r'trial-(C\d+)', f).group(1)
        txt = open(f).read()
        sigs = re.findall(r'signature: (\S+)', txt)
        n = txt.count('VIOLATION property=')
        if n:
            caught.append(f"{pid} ({n}): `{sigs[0][:90]}`")
        else:
            caught.append(f"{pid}: not caught")
    summ = (m.get('summary') or '').replace('|', '/').replace('\n', ' ')
    if len(summ) > 200:
        summ = summ[:197] + '...'
    kind = 'revert' if name.startswith('R-') else 'agent'
    col = '; '.join(caught) or 'no trial yet'
    if m.get('note') and 'not caught' in col:
        col += ' - ' + m['note']
    if m.get('neutralised'):
        col = 'not a violation on the final tree: ' + m['neutralised'] + (' (' + col + ')' if caught else '')
    rows.append((name, kind, val if kind == 'agent' else 'revert of a fix', summ, col))
print('| seed | validated | change | caught by (violations at quick tier, seed 1: first signature) |')
print('|------|-----------|--------|------------------|')
for r in rows:
    print(f'| {r[0]} | {r[2]} | {r[3]} | {r[4]} |')
