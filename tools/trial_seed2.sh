#!/bin/bash
# tools/trial_seed2.sh <out-dir> [seed dirs...]   like trial_all.sh, at VERIF_SEED (default 2), results under <out-dir>
# (robustness of detection across workload seeds; the seed table keeps using trial-<ID>.txt from trial_all.sh)
cd "$(dirname "$0")/.."
out=$1; shift; mkdir -p "$out"; export OUT=$out VERIF_SEED=${VERIF_SEED:-2}
dirs=("$@"); [ ${#dirs[@]} -eq 0 ] && dirs=(seeded/*/)
for d in "${dirs[@]}"; do
  d=${d%/}
  props=$(python3 -c "import json;m=json.load(open('$d/meta.json'));print(' '.join(m.get('properties') or [m['property']]))")
  for p in $props; do echo "$d $p"; done
done | xargs -P ${TRIAL_PAR:-3} -L 1 bash -c 'd=$0; p=$1; f=$OUT/$(basename $d)-$p.txt; tools/seedtrial.sh trial $d $p ${TRIAL_TIER:-quick} > $f 2>&1; echo "$d $p: $(grep -c "^VIOLATION" $f) violations"'
