#!/bin/bash
# tools/seedtrial.sh validate <seed-dir>          confirm a seeded change in a scratch worktree of /repo HEAD:
#                                                 demo passes without it, fails with it, the 661 tests pass with it
# tools/seedtrial.sh trial <seed-dir> <ID> [tier] run ./check <ID> of a scratch copy of /verif against a scratch worktree
#                                                 of /repo that has the change applied (nothing in /repo or /verif is touched)
# scratch trees live under /tmp/seedtrial-$$ and are removed at the end.
set -u
mode=$1; seed=$(readlink -f "$2"); name=$(basename "$seed")
S=/tmp/seedtrial-$$-$name
export CARGO_NET_OFFLINE=true
cleanup() { git -C /repo worktree remove --force "$S/repo" >/dev/null 2>&1; rm -rf "$S"; git -C /repo worktree prune; }
trap cleanup EXIT
mkdir -p "$S"
git -C /repo worktree add -q --detach "$S/repo" HEAD || exit 2
applyp() { (cd "$S/repo" && (git apply "$1" 2>/dev/null || git apply -3 "$1" 2>/dev/null || patch -p1 -s --fuzz=3 < "$1")); }
if [ "$mode" = validate ]; then
  cp -a /repo/target "$S/repo/target" 2>/dev/null
  demo_cmd=$(python3 -c "import json,sys;print(json.load(open('$seed/meta.json'))['demo_cmd'])")
  demo_cmd=$(echo "$demo_cmd" | sed -E "s#/tmp/(wt|w2|w3|w4)-[A-Za-z0-9]+#$S/repo#g")
  res="$seed/validation.txt"; : > "$res"
  applyp "$seed/demo.diff" || { echo "demo.diff does not apply" | tee -a "$res"; exit 1; }
  (cd "$S/repo" && eval "$demo_cmd" > "$S/demo0.log" 2>&1); a=$?
  echo "demo without change: exit $a (want 0)" | tee -a "$res"
  applyp "$seed/patch.diff" || { echo "patch.diff does not apply" | tee -a "$res"; exit 1; }
  (cd "$S/repo" && eval "$demo_cmd" > "$S/demo1.log" 2>&1); b=$?
  echo "demo with change: exit $b (want non-zero)" | tee -a "$res"
  (cd "$S/repo" && git checkout -q -- . && git clean -fdq -e target -e _seeded) ; applyp "$seed/patch.diff"
  (cd "$S/repo" && cargo nextest run --workspace --no-fail-fast --test-threads 8 --offline 2>&1 | grep -E "Summary|FAIL \[" | tail -6 > "$S/suite.log");
  sum=$(grep Summary "$S/suite.log")
  echo "suite with change: $sum" | tee -a "$res"
  if [ $a -eq 0 ] && [ $b -ne 0 ] && echo "$sum" | grep -q "661 passed, 0 skipped" && ! echo "$sum" | grep -q failed; then echo "VALID" | tee -a "$res"; else echo "INVALID" | tee -a "$res"; fi
  exit 0
fi
if [ "$mode" = trial ]; then
  id=$3; tier=${4:-quick}
  applyp "$seed/patch.diff" || { echo "patch.diff does not apply"; exit 2; }
  mkdir -p "$S/verif"
  rsync -a --exclude .git --exclude .work --exclude replays --exclude evidence --exclude seeded --exclude harness/target /verif/ "$S/verif/"
  cp -a /verif/harness/target "$S/verif/harness/target" 2>/dev/null
  (cd "$S/verif" && VERIF_SEED=${VERIF_SEED:-1} ./check "$id" --tier "$tier" 2>&1 | grep -v "^  detail" | cut -c1-400 | head -${TRIAL_LINES:-25});
  exit 0
fi
