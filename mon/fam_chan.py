"""Family F-chan (C18): several channels with generated glob filters over the five message fields, closed /
unsubscribed / re-registered at arbitrary points; oracle = an independent glob matcher applied to the
unfiltered stream of a default recorder channel."""
import collections
import json

from common import IRQ, MSG, V, digest


def gmatch(p, s):
    """subset of glob syntax: literals, *, ?, [abc] [a-z] [!..], {a,b} (no nesting); ASCII only"""
    def expand(p):
        i = p.find('{')
        if i < 0:
            return [p]
        j = p.index('}', i)
        alts = p[i + 1:j].split(',')
        return [x for a in alts for x in expand(p[:i] + a + p[j + 1:])]

    def m(p, s):
        if not p:
            return not s
        c = p[0]
        if c == '*':
            return any(m(p[1:], s[k:]) for k in range(len(s) + 1))
        if c == '?':
            return bool(s) and m(p[1:], s[1:])
        if c == '[':
            j = p.index(']', 1)
            body = p[1:j]
            neg = body[0] in '!^'
            body = body[1:] if neg else body
            if not s:
                return False
            ok = False
            k = 0
            while k < len(body):
                if k + 2 < len(body) and body[k + 1] == '-':
                    ok |= body[k] <= s[0] <= body[k + 2]
                    k += 3
                else:
                    ok |= s[0] == body[k]
                    k += 1
            return (ok != neg) and m(p[j + 1:], s[1:])
        return bool(s) and s[0] == c and m(p[1:], s[1:])
    return any(m(q, s) for q in expand(p))


VALUES = {
    'type': ['workflow', 'step', 'act'],
    'state': ['created', 'completed', 'skipped', 'error', 'aborted'],
    'key': ['k1', 'k2', 'key_long', 'm1', ''],
    'uses': [IRQ, MSG, ''],
    'tag': ['tag1', 't', 'mt', ''],
}


def genpat(r, field):
    vals = VALUES[field]
    base = r.choice(vals + ['*'])
    p = base
    for _ in range(r.randint(0, 3)):
        k = r.random()
        if not p:
            p = r.choice(['*', '?', '{a,b}'])
            continue
        i = r.randrange(len(p))
        if p[i] in '{},[]-!*?':
            continue
        if ('[' in p and p.index('[') < i < p.index(']')) or ('{' in p and p.index('{') < i < p.index('}')):
            continue                      # never edit inside a class or an alternation
        if k < 0.25:
            p = p[:i] + '*' + p[i + r.randint(0, 3):]
        elif k < 0.45:
            p = p[:i] + '?' + p[i + 1:]
        elif k < 0.65 and '{' not in p and '[' not in p:
            alt = r.choice([v for v in vals if v] or ['x'])
            p = '{' + p + ',' + alt + '}' if r.random() < 0.5 else p[:i] + '{' + p[i] + ',' + r.choice('xyz') + '}' + p[i + 1:]
        elif k < 0.85 and '[' not in p and '{' not in p:
            ch = p[i]
            cls = r.choice([ch + 'x', 'a-z', '!' + ch, '0-9', '!0-9'])
            p = p[:i] + '[' + cls + ']' + p[i + 1:]
    while '**' in p:
        p = p.replace('**', '*')     # globset gives `**` a path meaning and rejects it elsewhere
    # keep only well-formed patterns without empty alternatives (globset never lets an empty alternative match)
    if p.count('{') != p.count('}') or p.count('[') != p.count(']') or p.count('{') > 1 or p.count('[') > 1:
        return base or '*'
    if '{' in p and (p.index('}') < p.index('{') or any(a == '' for a in p[p.index('{') + 1:p.index('}')].split(','))):
        return base or '*'
    if '[' in p and (p.index(']') < p.index('[') + 2):
        return base or '*'
    return p


def model(r):
    tags = VALUES['tag']
    acts = []
    for i in range(r.randint(1, 3)):
        uses = r.choice([IRQ, IRQ, MSG])
        acts.append({'id': f'a{i}', 'uses': uses, 'key': r.choice(VALUES['key'][:4]), 'tag': r.choice(tags)})
    steps = [{'id': 's1', 'tag': r.choice(tags), 'acts': acts}, {'id': 's2', 'tag': r.choice(tags), 'if': r.choice(['true', 'false']), 'acts': [{'id': 'a9', 'uses': IRQ, 'key': 'k2'}]}]
    return {'id': 'm1', 'tag': r.choice(tags), 'steps': steps}


class ChanFamily:
    name = 'chan'

    def gen(self, rng, idx, opts):
        wf = model(rng)
        chans = [{'id': 'main', 'gen': 0}]
        store = rng.choice(['mem', 'mem', 'mem', 'sqlite'])
        for i in range(rng.randint(2, 5)):
            c = {'id': f'c{i}', 'gen': 0, 'events': False}
            if rng.random() < 0.3:
                c['ack'] = True          # an acknowledging client: its messages are recorded; what it receives is decided by its filter all the same
            for f in ('type', 'state', 'tag', 'key', 'uses'):
                if rng.random() < 0.55:
                    c[f] = genpat(rng, f)
            if len(chans) > 1 and rng.random() < 0.35:
                # a near copy of an earlier channel: only one field differs (matchers must not be shared between channels)
                src = rng.choice(chans[1:])
                c = dict(src, id=f'c{i}')
                f = rng.choice(['uses', 'uses', 'key', 'type', 'state', 'tag'])
                c[f] = genpat(rng, f)
            chans.append(c)
        # answers: complete / skip / abort some irqs from the quiescent client, interleaved with channel ops
        ops = [{'op': 'start', 'mid': 'm1', 'vars': {'pid': 'p1'}}, {'op': 'quiesce'}]
        gen = collections.Counter()
        for step in range(rng.randint(2, 6)):
            k = rng.random()
            cid = rng.choice([c['id'] for c in chans[1:]])
            if k < 0.2:
                ops.append({'op': 'chan_close', 'id': cid})
            elif k < 0.3:
                ops.append({'op': 'unsub', 'id': cid})
            elif k < 0.5:
                gen[cid] += 1
                c = {'id': cid, 'gen': gen[cid], 'events': False}
                for f in ('type', 'state', 'tag', 'key', 'uses'):
                    if rng.random() < 0.5:
                        c[f] = genpat(rng, f)
                ops.append({'op': 'chan_open', 'chan': c})
            else:
                ops.append({'op': 'act', 'target': {'pid': 'p1', 'kind': 'act', 'state': 'interrupted', 'occ': 0}, 'action': rng.choice(['next', 'next', 'next', 'skip', 'abort', 'error']), 'options': {'ecode': 'e1'}})
            if ops[-1]['op'] == 'act' and rng.random() < 0.35:
                continue        # no quiescence: the next op (possibly a close / re-registration) comes back to back with the action
            ops.append({'op': 'quiesce'})
        if ops[-1]['op'] != 'quiesce':
            ops.append({'op': 'quiesce'})
        ops += [{'op': 'run'}, {'op': 'snapshot', 'level': 'live'}]
        rt = rng.choice([{'flavor': 'current'}, {'flavor': 'current', 'chaos': {'max_yields': 3, 'seed': rng.randrange(1, 1 << 40)}}, {'flavor': 'multi', 'workers': 2, 'chaos': {'max_yields': 2, 'seed': rng.randrange(1, 1 << 40)}}])
        sc = {'id': '', 'family': 'chan', 'sched': rt['flavor'] + '-' + store, 'runtime': rt, 'engine': {'store': store, 'keep_processes': True}, 'models': [json.dumps(wf)], 'channels': chans,
              'responder': {'mode': 'quiescent', 'rules': [{'match': {'uses': IRQ}, 'action': 'next', 'times': 100}]}, 'ops': ops}
        return {'scenarios': [sc], 'meta': {'wf': wf}, 'digest': digest([wf, chans, ops]), 'nontrivial': True}

    def judge(self, c, opts, obs):
        out = []
        h, sc = c['hist'][0], c['scenarios'][0]
        sid = sc['id']
        # channel life line: (chan id) -> list of (from_seq, to_seq, gen, filter)
        life = collections.defaultdict(list)
        for ch in sc['channels'][1:]:
            life[ch['id']].append([0, None, ch.get('gen', 0), ch])
        for o in h.ops:
            i = o['i']
            op = sc['ops'][i]
            if op['op'] in ('chan_close', 'unsub'):
                for l in life[op['id']]:
                    if l[1] is None:
                        l[1] = o['seq']        # closed once the op has returned
                        l.append(self._call_seq(h, o))
            elif op['op'] == 'chan_open':
                cid = op['chan']['id']
                for l in life[cid]:
                    if l[1] is None:
                        l[1] = o['seq']
                        l.append(self._call_seq(h, o))
                life[cid].append([o['seq'], None, op['chan'].get('gen', 0), op['chan']])
        # last quiescent point before each op: messages generated after it and before a channel op are in flight when
        # the op runs, whether they reach the old or the new registration is not determined
        quiet = {}
        lastq = 0
        for o in h.ops:
            quiet[o['seq']] = lastq
            if sc['ops'][o['i']]['op'] in ('quiesce', 'run'):
                lastq = o['seq']
        # nothing is delivered to a registration after its close / replacement has returned
        for cid, spans in life.items():
            for sp in spans:
                if sp[1] is None:
                    continue
                late = [d for d in h.delivers if d['chan'] == cid and d['gen'] == sp[2] and d['seq'] > sp[1]]
                if late:
                    out.append(V('C18', 'delivered-after-close', 'dispatch-after-return', f"channel {cid}#{sp[2]} received {self._m(late[0])} after its close / replacement had returned", scenario=sid))
        main = [d for d in h.delivers if d['chan'] == 'main']
        got = collections.defaultdict(collections.Counter)
        for d in h.delivers:
            if d['chan'] != 'main' and not d.get('retry'):       # (redeliveries to an acknowledging channel are C09's subject)
                got[(d['chan'], d['gen'])][d['id']] += 1
        obs['c18.messages'] += len(main)
        emit_seq = {}
        for e in h.emits:
            if e['what'] == 'message':
                emit_seq.setdefault(e['id'], e['seq'])
        for cid, spans in life.items():
            for sp in spans:
                frm, to, gen, flt = sp[0], sp[1], sp[2], sp[3]
                call = sp[4] if len(sp) > 4 else None
                for m in main:
                    want = all(gmatch(flt.get(f, '*'), m[f]) for f in ('type', 'state', 'key', 'uses')) and (gmatch(flt.get('tag', '*'), m['tag']) or gmatch(flt.get('tag', '*'), m['model_tag']))
                    es = emit_seq.get(m['id'], m['seq'])
                    n = got[(cid, gen)][m['id']]
                    obs['c18.decisions'] += 1
                    # channel ops are issued at quiescent points only, so a message belongs to a registration
                    # iff it was generated strictly between the registration and its closing
                    if (to is not None and quiet.get(to, 0) < es < to) or (frm and quiet.get(frm, 0) < es < frm):
                        # in flight while the registration was closed / opened: only "filter rejects" can be judged
                        if not want and n:
                            out.append(V('C18', 'delivered-but-filter-rejects', self._which(flt, m), f"channel {cid}#{gen} {self._f(flt)} received {self._m(m)}", scenario=sid))
                        continue
                    inside = es > frm and (to is None or es < to)
                    if not inside:
                        if n:
                            out.append(V('C18', 'delivered-outside-registration', 'after-close' if to is not None and es > to else 'before-open', f"channel {cid}#{gen} received {self._m(m)} outside its registration", scenario=sid))
                        continue
                    obs['c18.selected' if want else 'c18.rejected'] += 1
                    if want and n == 0:
                        out.append(V('C18', 'selected-but-not-delivered', self._which(flt, m), f"channel {cid}#{gen} {self._f(flt)} did not receive {self._m(m)}", scenario=sid))
                    elif want and n > 1:
                        out.append(V('C18', 'delivered-twice', '', f"channel {cid}#{gen} received {self._m(m)} {n} times", scenario=sid))
                    elif not want and n:
                        out.append(V('C18', 'delivered-but-filter-rejects', self._which(flt, m), f"channel {cid}#{gen} {self._f(flt)} received {self._m(m)}", scenario=sid))
        return out

    @staticmethod
    def _call_seq(h, o):
        # ops are recorded when they return; the previous record's seq bounds the call from below
        prev = [e['seq'] for e in h.R if e['seq'] < o['seq']]
        return prev[-1] if prev else 0

    @staticmethod
    def _which(flt, m):
        bad = [f for f in ('type', 'state', 'key', 'uses') if not gmatch(flt.get(f, '*'), m[f])]
        if not (gmatch(flt.get('tag', '*'), m['tag']) or gmatch(flt.get('tag', '*'), m['model_tag'])):
            bad.append('tag')
        return ','.join(bad) or 'all-match'

    @staticmethod
    def _f(flt):
        return {f: flt[f] for f in ('type', 'state', 'tag', 'key', 'uses') if f in flt}

    @staticmethod
    def _m(m):
        return {f: m[f] for f in ('type', 'state', 'tag', 'model_tag', 'key', 'uses')}
