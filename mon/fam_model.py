"""Family F-model (C20): generated full Workflow values -> YAML/JSON round trip, deploy/version/events,
duplicate id rejection, unknown model start, tree listing against an independently computed one."""
import collections
import json
import re

from common import V, digest

TXT = ['a', 'b', ' ', 'é', '名', '✓', '"', "'", ':', '#', '-', '{', '\\n', '0', '😀', '}', '[', '|', '>', '&', '*', '!', '%', '@', '`', ',', '?', '~']


class G:
    def __init__(self, r):
        self.r = r
        self.n = 0
        self.all_ids = r.random() < 0.7
        self.ids = []       # ids of real tree nodes (steps, branches, acts, catch/timeout sub-steps, on entries, root)

    def nid(self, p):
        self.n += 1
        i = f'{p}{self.n}'
        self.ids.append(i)
        return i

    def txt(self):
        return ''.join(self.r.choice(TXT) for _ in range(self.r.randint(0, 8)))

    def val(self, d=0):
        k = self.r.random()
        if k < 0.15:
            return None
        if k < 0.3:
            return self.r.choice([True, False])
        if k < 0.5:
            return self.r.choice([0, 1, -1, 2 ** 31, 2 ** 40, -2 ** 45, 1.5, -0.25, 1e21, 2 ** 53 - 1])
        if k < 0.7 or d > 2:
            return self.txt()
        if k < 0.85:
            return [self.val(d + 1) for _ in range(self.r.randint(0, 3))]
        return {('k' + str(i)): self.val(d + 1) for i in range(self.r.randint(0, 3))}

    def vars(self):
        return {('v' + str(i)): self.val() for i in range(self.r.randint(0, 3))}

    def opt(self, d, k, f, p=0.5):
        if self.r.random() < p:
            d[k] = f()

    def act(self, d=0, on=False):
        a = {'uses': self.r.choice(['acts.core.irq', 'acts.core.msg', 'acts.transform.set'])}
        if on:
            # setup statements are templates instantiated at run time, not tree nodes
            self.opt(a, 'id', lambda: 'h%d' % self.r.randint(0, 10 ** 6))
            a['on'] = self.r.choice(['created', 'completed', 'before_update', 'updated', 'step'])
        elif self.all_ids:
            a['id'] = self.nid('a')
        else:
            self.opt(a, 'id', lambda: self.nid('a'))
        self.opt(a, 'name', self.txt)
        self.opt(a, 'desc', self.txt)
        self.opt(a, 'key', self.txt)
        self.opt(a, 'tag', self.txt)
        self.opt(a, 'params', self.val)
        self.opt(a, 'options', self.vars)
        self.opt(a, 'inputs', self.vars)
        self.opt(a, 'outputs', self.vars)
        self.opt(a, 'if', lambda: 'a > 1')
        if d < 2 and not on:
            self.opt(a, 'setup', lambda: [self.act(d + 1, True) for _ in range(self.r.randint(0, 2))], 0.3)
            self.opt(a, 'catches', lambda: [self.catch(d + 1) for _ in range(self.r.randint(0, 2))], 0.3)
            self.opt(a, 'timeout', lambda: [self.timeout(d + 1) for _ in range(self.r.randint(0, 2))], 0.3)
        return a

    def catch(self, d):
        c = {}
        self.opt(c, 'on', lambda: self.r.choice(['e1', 'e2']))
        c['steps'] = [self.step(d + 1) for _ in range(self.r.randint(0, 2))]
        return c

    def timeout(self, d):
        return {'on': str(self.r.randint(1, 90)) + self.r.choice('smhd'), 'steps': [self.step(d + 1) for _ in range(self.r.randint(0, 2))]}

    def step(self, d):
        st = {'id': self.nid('s')}
        self.opt(st, 'name', self.txt)
        self.opt(st, 'desc', self.txt)
        self.opt(st, 'tag', self.txt)
        self.opt(st, 'inputs', self.vars)
        self.opt(st, 'outputs', self.vars)
        self.opt(st, 'if', lambda: 'a > 1')
        if d < 3:
            k = self.r.random()
            if k < 0.4:
                st['acts'] = [self.act(d) for _ in range(self.r.randint(0, 3))]
            elif k < 0.7:
                st['branches'] = [self.branch(d + 1) for _ in range(self.r.randint(0, 3))]
            self.opt(st, 'setup', lambda: [self.act(d + 1, True) for _ in range(self.r.randint(0, 2))], 0.3)
            if self.r.random() < 0.3:
                st['catches'] = [self.catch(d + 1) for _ in range(self.r.randint(0, 2))]
            if self.r.random() < 0.3:
                st['timeout'] = [self.timeout(d + 1) for _ in range(self.r.randint(0, 2))]
        return st

    def branch(self, d):
        b = {'id': self.nid('b')}
        self.opt(b, 'name', self.txt)
        self.opt(b, 'tag', self.txt)
        self.opt(b, 'run', lambda: '1+1')
        self.opt(b, 'inputs', self.vars)
        self.opt(b, 'outputs', self.vars)
        k = self.r.random()
        if k < 0.5:
            b['if'] = 'a > 0'
        elif k < 0.7:
            b['else'] = True
        else:
            b['needs'] = [self.txt()]
        b['steps'] = self.jumps([self.step(d + 1) for _ in range(self.r.randint(0, 2))])
        return b

    def wf(self):
        w = {'id': 'm' + str(self.r.randint(0, 999))}
        self.ids.append(w['id'])
        self.opt(w, 'name', self.txt)
        self.opt(w, 'desc', self.txt)
        self.opt(w, 'tag', self.txt)
        self.opt(w, 'env', self.vars)
        self.opt(w, 'inputs', self.vars)
        self.opt(w, 'outputs', self.vars)
        self.opt(w, 'setup', lambda: [self.act(1, True) for _ in range(self.r.randint(0, 2))], 0.3)
        self.opt(w, 'on', lambda: [{'id': self.nid('ev'), 'uses': 'acts.event.manual', 'params': self.vars()} for _ in range(self.r.randint(0, 2))])
        w['steps'] = self.jumps([self.step(1) for _ in range(self.r.randint(0, 4))])
        return w

    def jumps(self, steps):
        """a backward `next` on one of the steps (also on one that is not the last of its list): the tree still contains
        every step of the list"""
        if self.all_ids and len(steps) >= 2 and self.r.random() < 0.25:
            i = self.r.randrange(1, len(steps))
            if not steps[i].get('branches'):
                steps[i]['next'] = steps[self.r.randrange(0, i)]['id']
        return steps


def expected_tree(w):
    lines = []

    def node(kind, n, level, nxt):
        lines.append((level, kind, n.get('id', '?'), n.get('name', ''), nxt))

    def steps(lst, level):
        for i, st in enumerate(lst):
            nxt = lst[i + 1].get('id', '?') if i + 1 < len(lst) else (st.get('next') or 'nil')
            node('step', st, level, nxt)
            for b in st.get('branches', []):
                node('branch', b, level + 1, 'nil')
                steps(b.get('steps', []), level + 2)
            acts = st.get('acts', [])
            for j, a in enumerate(acts):
                node('act', a, level + 1, acts[j + 1].get('id', '?') if j + 1 < len(acts) else 'nil')
    node('workflow', w, 0, 'nil')
    steps(w.get('steps', []), 1)
    return lines


def expected_nodes(w):
    """independent computation of the execution tree: id -> {kind, level, parent, next, prev, children[(typ, on, id)]}"""
    N = {}

    def node(i, kind, level):
        N[i] = {'kind': kind, 'level': level, 'parent': None, 'next': None, 'prev': None, 'children': []}

    def steps(lst, parent, level, typ, on):
        prev = None
        for st in lst or []:
            i = st['id']
            node(i, 'step', level)
            if prev is None:
                N[i]['parent'] = parent
                N[parent]['children'].append((typ, on, i))
            else:
                N[prev]['next'] = i
                N[i]['prev'] = prev
                N[i]['parent'] = parent          # parent() of a chained node walks the prev links
            for b in st.get('branches') or []:
                node(b['id'], 'branch', level + 1)
                N[b['id']]['parent'] = i
                N[i]['children'].append(('Normal', None, b['id']))
                steps(b.get('steps'), b['id'], level + 2, 'Normal', None)
            pa = None
            for a in st.get('acts') or []:
                node(a['id'], 'act', level + 1)
                if pa is None:
                    N[a['id']]['parent'] = i
                    N[i]['children'].append(('Normal', None, a['id']))
                else:
                    N[pa]['next'] = a['id']
                    N[a['id']]['prev'] = pa
                    N[a['id']]['parent'] = i
                pa = a['id']
                for c in a.get('catches') or []:
                    steps(c.get('steps'), a['id'], level + 2, 'Catch', c.get('on'))
                for t in a.get('timeout') or []:
                    steps(t.get('steps'), a['id'], level + 2, 'Timeout', t.get('on'))
            for c in st.get('catches') or []:
                steps(c.get('steps'), i, level + 1, 'Catch', c.get('on'))
            for t in st.get('timeout') or []:
                steps(t.get('steps'), i, level + 1, 'Timeout', t.get('on'))
            if st.get('next'):
                N[i]['next'] = st['next']          # (the link to a following step of the list, made next, replaces it)
            prev = i
    node(w['id'], 'workflow', 0)
    steps(w.get('steps'), w['id'], 1, 'Normal', None)
    return N


def all_named(w):
    from monitors import walk_nodes
    return all(n.get('id') for n, kind, where in walk_nodes(w))


def parse_tree(t):
    out = []
    for l in t.splitlines():
        m = re.match(r'^([│ ├└─]*)(workflow|step|branch|act) id:(\S+) name=(.*)  next=(\S+)$', l)
        if not m:
            out.append(('?', l))
            continue
        out.append((len(m.group(1)) // 4, m.group(2), m.group(3), m.group(4), m.group(5)))
    return out


class ModelFamily:
    name = 'model'

    def gen_redeploy(self, rng, idx, opts):
        """model A deployed and started, removed, a DIFFERENT model B deployed under the same id and started: the second
        process runs B's tree (every declared step and act once, in order), also across a reload from the store, and
        the version starts again"""
        mid = 'mr%d' % rng.randint(0, 99)
        noids = rng.random() < 0.5

        def simple(p, nsteps):
            steps = []
            for i in range(nsteps):
                st = {'acts': [{'uses': 'acts.core.irq', 'key': f'{p}k{i}_{j}'} for j in range(rng.randint(1, 2))]}
                if not noids:
                    st['id'] = f'{p}s{i}'
                    for j, a in enumerate(st['acts']):
                        a['id'] = f'{p}a{i}_{j}'
                steps.append(st)
            return {'id': mid, 'name': p, 'steps': steps}
        A, B = simple('za', rng.randint(1, 3)), simple('zb', rng.randint(1, 3))
        nda = rng.randint(1, 2)
        ops = [{'op': 'deploy', 'yaml': json.dumps(A)} for _ in range(nda)]
        ops += [{'op': 'start', 'mid': mid, 'vars': {'pid': 'pa'}}, {'op': 'quiesce'}, {'op': 'model_rm', 'id': mid},
                {'op': 'start', 'mid': mid, 'vars': {'pid': 'px'}},                         # removed: unknown again
                {'op': 'deploy', 'yaml': json.dumps(B)}, {'op': 'model_get', 'id': mid, 'fmt': 'json'},
                {'op': 'start', 'mid': mid, 'vars': {'pid': 'pb'}}, {'op': 'quiesce'}]
        if rng.random() < 0.5:
            ops.append({'op': 'evict', 'pid': 'pb'})
        ops += [{'op': 'run'}, {'op': 'snapshot', 'level': 'live'}]
        store = rng.choice(['mem', 'mem', 'sqlite'])
        sc = {'id': '', 'family': 'model', 'sched': 'cur-redeploy', 'runtime': {'flavor': 'current'}, 'engine': {'store': store, 'keep_processes': True}, 'models': [],
              'responder': {'mode': 'quiescent', 'order': 'fifo', 'rules': [{'match': {'uses': 'acts.core.irq', 'pid': 'pb'}, 'action': 'next', 'times': 100}]}, 'ops': ops}
        if store == 'sqlite':
            sc['watchdog_ms'] = 60000
        return {'scenarios': [sc], 'meta': {'sub': 'redeploy', 'A': A, 'B': B, 'nda': nda, 'mid': mid}, 'digest': digest([A, B, nda, store]), 'nontrivial': True}

    def judge_redeploy(self, c, opts, obs):
        out = []
        h, sc, m = c['hist'][0], c['scenarios'][0], c['meta']
        sid = sc['id']
        A, B, nda = m['A'], m['B'], m['nda']
        byop = collections.defaultdict(list)
        for o in h.ops:
            byop[sc['ops'][o['i']]['op']].append((sc['ops'][o['i']], o['res']))
        obs['c20.redeploys'] += 1
        starts = {op['vars']['pid']: r for op, r in byop['start']}
        if not all(r['ok'] for _, r in byop['deploy']) or not starts['pa']['ok']:
            out.append(V('C20', 'valid-model-rejected', 'redeploy', f"deploy / first start failed: {[r.get('err') for _, r in byop['deploy']]} {starts['pa'].get('err')}", scenario=sid))
            return out
        if starts['px']['ok']:
            out.append(V('C20', 'unknown-model-started', 'removed', 'start of a removed model id succeeded', scenario=sid))
        gj = byop['model_get'][0][1]
        if gj.get('ok'):
            if gj['ver'] != 1:
                out.append(V('C20', 'version', f"after-remove:1->{gj['ver']}", f"first deploy after a removal has version {gj['ver']}", scenario=sid))
            try:
                stored = json.loads(gj['data'])
            except Exception:
                stored = None
            if stored is None and isinstance(gj.get('data'), str):
                # the stored text is YAML: the name and the top-level list items (this model has no other list than steps)
                txt = gj['data']
                nm = re.search(r'^name: (.*)$', txt, re.M)
                stored = {'name': nm.group(1).strip() if nm else None, 'steps': re.findall(r'^- ', txt, re.M)}
            if stored is None:
                obs['c20.redeploy-stored-model-unreadable'] += 1
            elif stored.get('name') != 'zb' or len(stored.get('steps') or []) != len(B['steps']):
                out.append(V('C20', 'stored-model-differs', 'after-remove', f"the model stored after remove + deploy is not the deployed one (name {stored.get('name')}, {len(stored.get('steps') or [])} steps)", scenario=sid))
        if not starts['pb']['ok']:
            out.append(V('C20', 'valid-model-rejected', 'redeploy-start', f"start of the re-deployed model failed: {starts['pb'].get('err')}", scenario=sid))
            return out
        # pb runs B's tree: its acts (by key), each exactly once, in declaration order; nothing of A
        want = [a['key'] for st in B['steps'] for a in st['acts']]
        got = [d['key'] for d in h.delivers if d['pid'] == 'pb' and d['type'] == 'act' and d['state'] == 'created']
        evicted = any(op['op'] == 'evict' for op in sc['ops'])
        tag = ('noids' if 'id' not in B['steps'][0] else 'ids') + (':reloaded' if evicted else '')
        if got != want:
            foreign = [k for k in got if k.startswith('za')]
            out.append(V('C20', 'started-process-runs-another-tree', f"{'stale-model' if foreign else 'missing' if len(got) < len(want) else 'other'}:{tag}", f"process started from the re-deployed model executed acts {got}, the deployed model declares {want}", scenario=sid))
        done = [e for e in h.cbs if e['pid'] == 'pb' and e['what'] == 'complete']
        if got == want and not done:
            out.append(V('C20', 'started-process-did-not-complete', tag, f"process of the re-deployed model did not complete", scenario=sid))
        return out

    def gen(self, rng, idx, opts):
        if rng.random() < opts.get('redeploy', 0.15):
            return self.gen_redeploy(rng, idx, opts)
        g = G(rng)
        w = g.wf()
        dup = None
        if rng.random() < 0.3 and len(g.ids) >= 2:
            s = json.dumps(w)
            a, b = rng.sample(g.ids, 2)
            if f'"id": "{b}"' in s:
                w = json.loads(s.replace(f'"id": "{b}"', f'"id": "{a}"', 1))
                dup = (a, b)
        nd = rng.randint(1, 3)
        y = json.dumps(w, ensure_ascii=False)
        ops = [{'op': 'roundtrip', 'yaml': y}]
        wfinal = None
        if dup is None and rng.random() < 0.3:
            # the last deploy carries one more `on` entry (appended): it gets its start event like the others
            wfinal = json.loads(json.dumps(w))
            wfinal['on'] = (wfinal.get('on') or []) + [{'id': 'evx%d' % rng.randint(0, 999), 'uses': 'acts.event.manual', 'params': {'n': rng.randint(0, 9)}}]
            nd = max(nd, 2)
            ops += [{'op': 'deploy', 'yaml': y} for _ in range(nd - 1)] + [{'op': 'deploy', 'yaml': json.dumps(wfinal, ensure_ascii=False)}]
        else:
            ops += [{'op': 'deploy', 'yaml': y} for _ in range(nd)]
        ops += [{'op': 'model_get', 'id': w['id'], 'fmt': 'json'}, {'op': 'model_get', 'id': w['id'], 'fmt': 'tree'}, {'op': 'evt_list'},
                {'op': 'start', 'mid': 'nosuchmodel' + str(rng.randint(0, 9)), 'vars': {}},
                {'op': 'model_rm', 'id': w['id']}, {'op': 'evt_list'}]
        sc = {'id': '', 'family': 'model', 'sched': 'cur', 'runtime': {'flavor': 'current'}, 'engine': {'store': rng.choice(['mem', 'mem', 'mem', 'sqlite'])}, 'models': [], 'responder': {'rules': []}, 'ops': ops}
        return {'scenarios': [sc], 'meta': {'wf': w, 'dup': dup, 'nd': nd, 'wf_final': wfinal}, 'digest': digest([w, wfinal is not None]), 'nontrivial': len(g.ids) >= 3}

    def judge(self, c, opts, obs):
        out = []
        h, sc, m = c['hist'][0], c['scenarios'][0], c['meta']
        if m.get('sub') == 'redeploy':
            return self.judge_redeploy(c, opts, obs)
        w, dup, nd = m['wf'], m['dup'], m['nd']
        res = [o['res'] for o in h.ops]
        rt = res[0]
        sid = sc['id']
        if 'panic' in rt or 'parse_err' in rt:
            out.append(V('C20', 'parse-failed', 'panic' if 'panic' in rt else 'error', f"generated model does not parse: {str(rt)[:200]}", scenario=sid))
            return out
        obs['c20.models'] += 1
        # what was written is what was parsed: every field of the generated model is in the parsed one with the same value
        d = self.lost(w, rt['v1'])
        if d:
            out.append(V('C20', 'parsed-model-loses-field', re.sub(r'/\d+', '/*', d[0]).split('/')[-1] + ':' + type(d[1]).__name__, f"field {d[0]} = {d[1]!r} of the written model came back as {d[2]!r}", scenario=sid))
        if not rt['yml_eq']:
            out.append(V('C20', 'yaml-roundtrip', self.diffpath(rt['v1'], rt.get('v2')), f"YAML round trip changes the model at {self.diff(rt['v1'], rt.get('v2'))[:3]}", scenario=sid))
        if not rt['json_eq']:
            out.append(V('C20', 'json-roundtrip', self.diffpath(rt['v1'], rt.get('v3')), f"JSON round trip changes the model at {self.diff(rt['v1'], rt.get('v3'))[:3]}", scenario=sid))
        deploys = res[1:1 + nd]
        if dup:
            obs['c20.duplicate-id-models'] += 1
            if rt['valid'] or any(d['ok'] for d in deploys):
                out.append(V('C20', 'duplicate-id-accepted', '', f"model with duplicate node id {dup} was accepted (valid={rt['valid']}, deploy={[d['ok'] for d in deploys]})", scenario=sid))
            return out
        if not rt['valid'] or not all(d['ok'] for d in deploys):
            out.append(V('C20', 'valid-model-rejected', '', f"model without duplicate ids rejected: {rt.get('valid_err')} {[d.get('err') for d in deploys]}", scenario=sid))
            return out
        gj, gt, ev1, st, rm, ev2 = res[1 + nd:1 + nd + 6]
        # stored model == given model, version grows by one per deploy
        if not gj['ok']:
            out.append(V('C20', 'model-get-failed', '', str(gj)[:200], scenario=sid))
        else:
            obs['c20.deployed-compares'] += 1
            if gj['ver'] != nd:
                out.append(V('C20', 'version', f"{nd}->{gj['ver']}", f"after {nd} deploys the version is {gj['ver']}", scenario=sid))
            try:
                stored = json.loads(gj['data'])
            except Exception:
                stored = None
            want = json.loads(json.dumps(rt['v1']))
            if m.get('wf_final'):
                want = None          # (the stored text is the last deploy's; its events are what this case looks at)
            if stored is not None and want is not None:
                # the stored model carries the version it was deployed with
                s2 = dict(stored)
                w2 = dict(want)
                s2.pop('ver', None)
                w2.pop('ver', None)
                if s2 != w2:
                    out.append(V('C20', 'stored-model-differs', self.diffpath(w2, s2), f"stored model differs from the deployed one at {self.diff(w2, s2)[:3]}", scenario=sid))
        # one start event per `on` entry
        ons = (m.get('wf_final') or w).get('on') or []
        rows = [r for r in (ev1.get('rows') or []) if r['mid'] == w['id']]
        if len(rows) != len(ons):
            out.append(V('C20', 'event-count', f"{len(ons)}->{len(rows)}", f"{len(ons)} `on` entries but {len(rows)} registered events", scenario=sid))
        else:
            for o in ons:
                if not any(r['uses'] == o['uses'] and json.loads(r['params'] or 'null') == o.get('params') for r in rows):
                    out.append(V('C20', 'event-fields', '', f"no registered event matches on-entry {o}", scenario=sid))
        if st['ok']:
            out.append(V('C20', 'unknown-model-started', '', 'start of an unknown model id succeeded', scenario=sid))
        rows2 = [r for r in (ev2.get('rows') or []) if r['mid'] == w['id']]
        if rows2:
            out.append(V('C20', 'events-left-after-model-rm', '', f"{len(rows2)} events of the removed model remain", scenario=sid))
        # the execution tree itself (normal, catch and timeout outputs), when every node of the model is named
        nodes = rt.get('nodes')
        if isinstance(nodes, dict) and 'nodes' in nodes and all_named(w):
            exp = expected_nodes(w)
            got = {n['id']: {'kind': n['kind'], 'level': n['level'], 'parent': n['parent'], 'next': n['next'], 'prev': n['prev'],
                             'children': [(c['typ'], c['on'], c['id']) for c in n['children']]} for n in nodes['nodes']}
            obs['c20.structure-compares'] += 1
            obs['c20.structure-nodes'] += len(exp)
            if set(exp) != set(got):
                out.append(V('C20', 'tree-node-set', 'missing' if set(exp) - set(got) else 'extra', f"execution tree nodes: missing {sorted(set(exp) - set(got))[:4]} extra {sorted(set(got) - set(exp))[:4]}", scenario=sid))
            else:
                for i, e in exp.items():
                    g = got[i]
                    bad = [f for f in ('kind', 'level', 'parent', 'next', 'prev') if e[f] != g[f]]
                    if sorted(map(str, e['children'])) != sorted(map(str, g['children'])):
                        bad.append('children')
                    elif e['children'] != g['children']:
                        bad.append('children-order')
                    if bad:
                        where = 'catch' if any(c[0] == 'Catch' for c in e['children'] + g['children']) else 'timeout' if any(c[0] == 'Timeout' for c in e['children'] + g['children']) else 'normal'
                        out.append(V('C20', 'tree-structure', f"{e['kind']}:{','.join(bad)}:{where}", f"node {i}: expected {{ {', '.join(f'{f}: {e[f]}' for f in bad if f in e)} }} got {{ {', '.join(f'{f}: {g[f]}' for f in bad if f in g)} }} children exp {e['children']} got {g['children']}", scenario=sid))
                        break
        # tree listing
        if gt['ok']:
            exp = expected_tree(w)
            got = parse_tree(gt['data'])
            ok = len(exp) == len(got) and all(len(x) == 5 for x in got) and all(
                e[0] == g_[0] and e[1] == g_[1] and (e[2] == '?' or e[2] == g_[2]) and e[3].replace('\n', '?') == g_[3].replace('\n', '?') and (e[4] == '?' or e[4] == g_[4]) for e, g_ in zip(exp, got))
            obs['c20.trees-compared'] += 1
            obs['c20.tree-nodes'] += len(exp)
            if not ok:
                first = next((i for i, (e, g_) in enumerate(zip(exp, got)) if tuple(e) != tuple(g_)), min(len(exp), len(got)))
                out.append(V('C20', 'tree-differs', f"{'length' if len(exp) != len(got) else exp[first][1] if first < len(exp) else '?'}", f"tree listing differs at line {first}: expected {exp[first] if first < len(exp) else None} got {got[first] if first < len(got) else None}", scenario=sid))
        return out

    @staticmethod
    def lost(a, b, p=''):
        """first field of a (the written model) that b (the parsed model as JSON) does not carry with an equal value"""
        if isinstance(a, dict):
            if not isinstance(b, dict):
                return (p, a, b)
            for k, v in a.items():
                if k not in b:
                    if v is None:
                        continue              # an explicit null and an absent optional field are the same model
                    return (p + '/' + k, v, '<absent>')
                r = ModelFamily.lost(v, b[k], p + '/' + k)
                if r:
                    return r
            return None
        if isinstance(a, list):
            if not isinstance(b, list) or len(a) != len(b):
                return (p, a, b)
            for i, (x, y) in enumerate(zip(a, b)):
                r = ModelFamily.lost(x, y, p + f'/{i}')
                if r:
                    return r
            return None
        if isinstance(a, bool) or isinstance(b, bool):
            return None if a is b else (p, a, b)
        if isinstance(a, (int, float)) and isinstance(b, (int, float)):
            return None if float(a) == float(b) else (p, a, b)
        return None if a == b else (p, a, b)

    @staticmethod
    def diff(a, b, p=''):
        if type(a) != type(b) or (not isinstance(a, (dict, list)) and a != b):
            return [(p, a, b)]
        if isinstance(a, dict):
            return [x for k in sorted(set(a) | set(b)) for x in ModelFamily.diff(a.get(k), b.get(k), p + '/' + k)]
        if isinstance(a, list):
            return [x for i in range(max(len(a), len(b))) for x in ModelFamily.diff(a[i] if i < len(a) else None, b[i] if i < len(b) else None, p + f'/{i}')]
        return []

    @staticmethod
    def diffpath(a, b):
        d = ModelFamily.diff(a, b)
        if not d:
            return ''
        return re.sub(r'/\d+', '/*', d[0][0]).split('/')[-1] + ':' + type(d[0][1]).__name__
