"""Family F-gen (C16): generated acts (parallel / sequence over lists of length 0..5, nesting depth 2),
lifecycle hooks (setup acts bound to created / completed / before_update / updated / step on workflow, step,
act) and push.  Oracle: counting, from the model."""
import collections
import json

import monitors
from common import IRQ, MSG, OPEN, TERM, V, digest

PAR, SEQ = 'acts.core.parallel', 'acts.core.sequence'


def leaf_acts(rng, n, prefix):
    acts = []
    for i in range(n):
        if rng.random() < 0.7 or not any(a['uses'] == IRQ for a in acts) and i == n - 1:
            acts.append({'uses': IRQ, 'key': f'{prefix}q{i}'})
        else:
            acts.append({'uses': MSG, 'key': f'{prefix}m{i}'})
    return acts


class GenFamily:
    name = 'gen'

    def gen(self, rng, idx, opts):
        sub = opts.get('sub', 'gen')
        if sub == 'hooks':
            return self.gen_hooks(rng, opts)
        if sub == 'push':
            return self.gen_push(rng, opts)
        if sub == 'block':
            return self.gen_block(rng, opts)
        kind = rng.choice([PAR, SEQ])
        lst = [rng.choice(['u', 'v', 'w', 'é']) + str(i) if rng.random() < 0.8 else 100 + i for i in range(rng.randint(0, 5))]
        nested = rng.random() < 0.3
        if nested:
            ikind = SEQ if kind == PAR else PAR
            if rng.random() < 0.3:
                ikind = kind
            ilst = [f'i{j}' for j in range(rng.randint(0, 3))]
            inner = [{'uses': ikind, 'params': {'in': ilst, 'acts': leaf_acts(rng, rng.randint(1, 2), 'n')}}]
            if rng.random() < 0.5:
                inner.insert(0, {'uses': MSG, 'key': 'pre'})
            acts = inner
        else:
            ikind, ilst = None, None
            acts = leaf_acts(rng, rng.randint(1, 3), 'l')
        wf = {'id': 'm1', 'steps': [{'id': 's1', 'acts': [{'id': 'g1', 'uses': kind, 'params': {'in': lst, 'acts': acts}}]}, {'id': 's2', 'acts': [{'id': 'a2', 'uses': IRQ, 'key': 'after'}]}]}
        rt = rng.choice([{'flavor': 'current'}, {'flavor': 'current', 'chaos': {'max_yields': 3, 'seed': rng.randrange(1, 1 << 40)}}, {'flavor': 'multi', 'workers': 2, 'chaos': {'max_yields': 3, 'seed': rng.randrange(1, 1 << 40)}},
                         {'flavor': 'multi', 'workers': 4, 'chaos': {'max_yields': 2, 'seed': rng.randrange(1, 1 << 40)}}])
        sc = {'id': '', 'family': 'gen', 'sched': rt['flavor'], 'seed': rng.randrange(1 << 30), 'runtime': rt, 'engine': {'store': opts.get('store', 'mem'), 'keep_processes': True}, 'models': [json.dumps(wf)],
              'responder': {'mode': 'quiescent', 'order': rng.choice(['fifo', 'lifo', 'seeded']), 'rules': [{'match': {'uses': IRQ}, 'action': 'next', 'times': 10000}]},
              'ops': [{'op': 'start', 'mid': 'm1', 'vars': {'pid': 'p1'}}, {'op': 'run', 'snap': opts.get('snap', 'live')}, {'op': 'snapshot', 'level': opts.get('snap', 'live')}]}
        return {'scenarios': [sc], 'meta': {'sub': 'gen', 'wf': wf, 'kind': kind, 'list': lst, 'nested': nested, 'ikind': ikind, 'ilist': ilst, 'acts': acts}, 'digest': digest(wf), 'nontrivial': len(lst) >= 1}

    def gen_rerun(self, rng, opts):
        """a step (or act) with setup acts is run a second time: the client sends its open act back to the step itself.
        Every instance of the task fires its hooks for its own lifecycle events"""
        on_act = rng.random() < 0.3
        su = []
        if rng.random() < 0.6:
            su.append({'uses': MSG, 'key': 'plain'})          # a setup act without `on`: runs when the task is initialised
        su.append({'uses': MSG, 'key': 'hc', 'on': 'created'})
        if rng.random() < 0.7:
            su.append({'uses': MSG, 'key': 'hd', 'on': 'completed'})
        if rng.random() < 0.5:
            rng.shuffle(su)
        a1 = {'id': 'a1', 'uses': IRQ, 'key': 'k1'}
        s1 = {'id': 's1', 'acts': [a1]}
        (a1 if on_act else s1)['setup'] = su
        wf = {'id': 'm1', 'steps': [{'id': 's0', 'acts': [{'id': 'a0', 'uses': IRQ, 'key': 'k0'}]}, s1, {'id': 's2', 'acts': [{'id': 'a2', 'uses': MSG, 'key': 'm2'}]}]}
        rt = rng.choice([{'flavor': 'current'}, {'flavor': 'current', 'chaos': {'max_yields': 3, 'seed': rng.randrange(1, 1 << 40)}}, {'flavor': 'multi', 'workers': 2, 'chaos': {'max_yields': 3, 'seed': rng.randrange(1, 1 << 40)}}])
        snap = opts.get('snap', 'live')
        ops = [{'op': 'start', 'mid': 'm1', 'vars': {'pid': 'p1'}}, {'op': 'run', 'snap': snap}]
        for _ in range(rng.randint(1, 2)):
            ops += [{'op': 'act', 'target': {'pid': 'p1', 'key': 'k1', 'state': 'interrupted', 'occ': -1}, 'action': 'back', 'options': {'to': 's1'}}, {'op': 'run', 'snap': snap}]
        ops += [{'op': 'act', 'target': {'pid': 'p1', 'key': 'k1', 'state': 'interrupted', 'occ': -1}, 'action': 'next', 'options': {}}, {'op': 'run', 'snap': snap}, {'op': 'snapshot', 'level': snap}]
        sc = {'id': '', 'family': 'gen', 'sched': rt['flavor'] + '-rerun', 'seed': rng.randrange(1 << 30), 'runtime': rt, 'engine': {'store': opts.get('store', 'mem'), 'keep_processes': True}, 'models': [json.dumps(wf)],
              'responder': {'mode': 'quiescent', 'order': 'fifo', 'rules': [{'match': {'key': 'k1'}, 'action': 'none', 'times': 100}, {'match': {'uses': IRQ}, 'action': 'next', 'times': 10000}]}, 'ops': ops}
        return {'scenarios': [sc], 'meta': {'sub': 'rerun', 'wf': wf, 'on': 'a1' if on_act else 's1', 'setup': su}, 'digest': digest([wf, ops]), 'nontrivial': True}

    def judge_rerun(self, c, obs):
        out = []
        h, sc, m = c['hist'][0], c['scenarios'][0], c['meta']
        sid = sc['id']
        nid = m['on']
        inst = [e for e in h.creates if e['nid'] == nid]
        keys_ = {(e['pid'], e['tid']) for e in inst}
        # (an instance that never got as far as being initialised has no lifecycle events)
        started = {(e['pid'], e['tid']) for e in h.states if (e['pid'], e['tid']) in keys_ and e['via'] == 'set' and e['new'] in ('running', 'interrupted')}
        # (`completed` is the engine's name for the end of a task, whatever its final state: a backed instance has ended too)
        completed = {(e['pid'], e['tid']) for e in h.states if (e['pid'], e['tid']) in keys_ and e['via'] == 'set' and e['new'] in TERM}
        obs[f"c16.reruns:{'act' if nid == 'a1' else 'step'}:instances={len(started)}"] += 1
        if len(started) < 2:
            return out
        want = {'plain': len(started), 'hc': len(started), 'hd': len(completed)}
        for a in m['setup']:
            key = a['key']
            if not a.get('on'):
                continue        # (the property speaks of acts bound to a lifecycle event only)
            got = sum(1 for e in h.delivers if e['key'] == key and e['state'] in ('created', 'completed') and e.get('retry', 0) == 0)
            got = sum(1 for e in h.delivers if e['key'] == key and e.get('retry', 0) == 0 and e['state'] == 'completed') or got
            obs[f"c16.rerun-hooks:{a.get('on') or 'no-on'}"] += 1
            if got != want[key]:
                out.append(V('C16', 'hook-firings', f"rerun:{'act' if nid == 'a1' else 'step'}:{a.get('on') or 'plain-setup-act'}:{'more' if got > want[key] else 'fewer'}", f"setup act {key} on {nid} (on: {a.get('on')}): ran {got} times, {nid} had {len(started)} instances of which {len(completed)} ended", scenario=sid))
        return out

    def gen_hooks(self, rng, opts):
        if not opts.get('restart') and rng.random() < opts.get('rerun', 0.12):
            return self.gen_rerun(rng, opts)
        n = 0
        hooks = {}     # hook key -> (attached kind, attached id, on)
        hookgen = []   # keys of irq acts generated by a generator that is a hook act

        def setup(kind, nid, choices):
            nonlocal n
            out = []
            for on in rng.sample(choices, rng.randint(0, min(3, len(choices)))):
                n += 1
                key = f'hk{n}'
                hooks[key] = (kind, nid, on)
                out.append({'uses': MSG, 'key': key, 'on': on})
            return out
        steps = []
        for i in range(rng.randint(1, 3)):
            acts = []
            for j in range(rng.randint(1, 3)):
                a = {'id': f'a{i}_{j}', 'uses': rng.choice([IRQ, IRQ, MSG]), 'key': f'k{i}_{j}'}
                if a['uses'] == IRQ:
                    su = setup('act', a['id'], ['created', 'completed'])
                    if su:
                        a['setup'] = su
                acts.append(a)
            st = {'id': f's{i}', 'acts': acts}
            su = setup('step', st['id'], ['created', 'completed', 'before_update', 'updated', 'step'])
            if rng.random() < 0.12 and not opts.get('restart'):
                # a generator that is itself bound to a lifecycle event: its generated acts are ordinary acts
                su = su + [{'uses': rng.choice([PAR, SEQ]), 'on': 'created', 'params': {'in': ['u', 'v'], 'acts': [{'uses': IRQ, 'key': f'hg{i}'}]}}]
                hookgen.append(f'hg{i}')
            if su:
                st['setup'] = su
            steps.append(st)
        wf = {'id': 'm1', 'steps': steps}
        su = setup('workflow', 'm1', ['created', 'completed', 'before_update', 'updated', 'step'])
        if su:
            wf['setup'] = su
        rt = rng.choice([{'flavor': 'current'}, {'flavor': 'current', 'chaos': {'max_yields': 3, 'seed': rng.randrange(1, 1 << 40)}}, {'flavor': 'multi', 'workers': 2, 'chaos': {'max_yields': 3, 'seed': rng.randrange(1, 1 << 40)}}])
        sc = {'id': '', 'family': 'gen', 'sched': rt['flavor'], 'seed': rng.randrange(1 << 30), 'runtime': rt, 'engine': {'store': opts.get('store', 'mem'), 'keep_processes': True}, 'models': [json.dumps(wf)],
              'responder': {'mode': 'quiescent', 'order': rng.choice(['fifo', 'lifo']), 'rules': [{'match': {'uses': IRQ}, 'action': 'next', 'times': 10000}]},
              'ops': [{'op': 'start', 'mid': 'm1', 'vars': {'pid': 'p1'}}, {'op': 'run', 'snap': opts.get('snap', 'live')}, {'op': 'snapshot', 'level': opts.get('snap', 'live')}]}
        if opts.get('restart'):
            # the engine is stopped and started again on the same database at one quiescent point
            sc['faults'] = {'restart_at': [rng.randint(1, 3)]}
            sc['watchdog_ms'] = 60000
        return {'scenarios': [sc], 'meta': {'sub': 'hooks', 'wf': wf, 'hooks': hooks, 'hookgen': hookgen}, 'digest': digest(wf), 'nontrivial': len(hooks) >= 1}

    def gen_block(self, rng, opts):
        """acts.core.block in parallel or sequence mode over a mix of acts, one of which may fail (a throwing script or a
        client error); under both settings of keep_processes: with the default one the rows of the process are gone as
        soon as it has ended with the error, while acts of the block that were already queued still run"""
        mode = rng.choice(['parallel', 'parallel', 'sequence'])
        acts = []
        for i in range(rng.randint(2, 4)):
            k = rng.choice(['msg', 'msg', 'irq', 'set', 'throw', 'irq-error'])
            if k == 'msg':
                acts.append({'id': f'bm{i}', 'uses': MSG, 'key': f'bm{i}'})
            elif k == 'irq':
                acts.append({'id': f'bi{i}', 'uses': IRQ, 'key': f'bi{i}'})
            elif k == 'set':
                acts.append({'id': f'bs{i}', 'uses': 'acts.transform.set', 'params': {'v': i}})
            elif k == 'throw':
                acts.append({'id': f'bt{i}', 'uses': 'acts.transform.code', 'params': 'throw new Error("boom");'})
            else:
                acts.append({'id': f'be{i}', 'uses': IRQ, 'key': f'berr{i}'})
        wf = {'id': 'm1', 'inputs': {'v': 0}, 'steps': [{'id': 's1', 'acts': [{'id': 'blk', 'uses': 'acts.core.block', 'params': {'mode': mode, 'acts': acts}}]}, {'id': 's2', 'acts': [{'id': 'a2', 'uses': IRQ, 'key': 'after'}]}]}
        keep = rng.random() < 0.5
        rules = [{'match': {'key': a['key']}, 'action': 'error', 'options': {'ecode': 'e1', 'message': 'boom'}} for a in acts if a.get('key', '').startswith('berr')] + [{'match': {'uses': IRQ}, 'action': 'next', 'times': 1000}]
        rt = rng.choice([{'flavor': 'current'}, {'flavor': 'current', 'chaos': {'max_yields': 3, 'seed': rng.randrange(1, 1 << 40)}}, {'flavor': 'multi', 'workers': 2, 'chaos': {'max_yields': 3, 'seed': rng.randrange(1, 1 << 40)}}])
        sc = {'id': '', 'family': 'gen', 'sched': f"block-{mode}-{rt['flavor']}{'' if keep else '-nokeep'}", 'seed': rng.randrange(1 << 30), 'runtime': rt, 'engine': {'store': opts.get('store', 'mem'), 'keep_processes': keep}, 'models': [json.dumps(wf)],
              'responder': {'mode': rng.choice(['quiescent', 'inline']), 'order': rng.choice(['fifo', 'lifo']), 'rules': rules},
              'ops': [{'op': 'start', 'mid': 'm1', 'vars': {'pid': 'p1'}}, {'op': 'run', 'snap': opts.get('snap', 'live')}, {'op': 'snapshot', 'level': opts.get('snap', 'live')}]}
        return {'scenarios': [sc], 'meta': {'sub': 'block', 'wf': wf, 'mode': mode}, 'digest': digest([wf, keep]), 'nontrivial': True}

    def gen_push(self, rng, opts):
        n = rng.randint(1, 2)
        wf = {'id': 'm1', 'steps': [{'id': 's1', 'acts': [{'id': f'a{i}', 'uses': IRQ, 'key': f'k{i}'} for i in range(n)]}, {'id': 's2', 'acts': [{'id': 'a9', 'uses': IRQ, 'key': 'k9'}]}]}
        npush = rng.randint(1, 2)
        ops = [{'op': 'start', 'mid': 'm1', 'vars': {'pid': 'p1'}}, {'op': 'quiesce'}, {'op': 'snapshot', 'level': 'live'}]
        for j in range(npush):
            ops += [{'op': 'act', 'target': {'pid': 'p1', 'nid': 's1'}, 'action': 'push', 'options': {'uses': IRQ, 'key': f'kp{j}', 'id': f'ap{j}'}}, {'op': 'quiesce'}, {'op': 'snapshot', 'level': 'live'}]
        order = [f'k{i}' for i in range(n)] + [f'kp{j}' for j in range(npush)]
        variant = rng.choice(['plain', 'reenter', 'hooks', 'hooks'])
        rules = [{'match': {'uses': IRQ}, 'action': 'next', 'times': 100}]
        if variant == 'reenter':
            # the step is finished and entered again (the client sends the flow back once): the pushed acts belong to the
            # first visit, nothing pushes them again
            rules.insert(0, {'match': {'key': 'k9'}, 'action': 'back', 'options': {'to': 's1'}, 'times': 1})
        elif variant == 'hooks':
            # the step's own update hooks fire for every act below it, also for the pushed ones, also after the process
            # has been dropped from the cache and loaded again while they are open
            wf['steps'][0]['setup'] = [{'uses': MSG, 'key': 'hu', 'on': 'updated'}, {'uses': MSG, 'key': 'hb', 'on': 'before_update'}]
            if rng.random() < 0.6:
                ops += [{'op': 'evict', 'pid': 'p1'}]
        ops += [{'op': 'run'}, {'op': 'snapshot', 'level': 'live'}]
        rt = rng.choice([{'flavor': 'current'}, {'flavor': 'multi', 'workers': 2, 'chaos': {'max_yields': 3, 'seed': rng.randrange(1, 1 << 40)}}])
        sc = {'id': '', 'family': 'gen', 'sched': rt['flavor'] + '-' + variant, 'runtime': rt, 'engine': {'store': opts.get('store', 'mem'), 'keep_processes': True}, 'models': [json.dumps(wf)],
              'responder': {'mode': 'quiescent', 'order': rng.choice(['fifo', 'lifo']), 'rules': rules}, 'ops': ops}
        return {'scenarios': [sc], 'meta': {'sub': 'push', 'wf': wf, 'n': n, 'npush': npush, 'order': order, 'variant': variant}, 'digest': digest([wf, ops, variant]), 'nontrivial': True}

    # ------------------------------------------------------------------
    def judge(self, c, opts, obs):
        sub = c['meta']['sub']
        return {'gen': self.judge_gen, 'hooks': self.judge_hooks, 'push': self.judge_push, 'rerun': self.judge_rerun}[sub](c, obs)

    def judge_gen(self, c, obs):
        out = []
        h, sc, m = c['hist'][0], c['scenarios'][0], c['meta']
        sid = sc['id']
        lst, kind = m['list'], m['kind']
        tag = ('parallel' if kind == PAR else 'sequence') + (':nested' if m['nested'] else '')
        obs[f'c16.gen-runs:{tag}:len={len(lst)}'] += 1

        def opt(e, k):
            return ((e.get('inputs') or {}).get('options') or {}).get(k, '<none>')
        created = [e for e in h.delivers if e['uses'] == IRQ and e['state'] == 'created' and e['key'] not in ('after',)]
        got = collections.Counter((e['key'], opt(e, '$index'), json.dumps(opt(e, '$value'))) for e in created)
        if m['nested']:
            leaf = [a for a in m['acts'] if a['uses'] in (PAR, SEQ)][0]['params']
            exp = collections.Counter()
            for _ in lst:
                for j, v in enumerate(leaf['in']):
                    for a in leaf['acts']:
                        if a['uses'] == IRQ:
                            exp[(a['key'], j, json.dumps(v))] += 1
        else:
            exp = collections.Counter((a['key'], i, json.dumps(v)) for i, v in enumerate(lst) for a in m['acts'] if a['uses'] == IRQ)
        obs['c16.generated-irqs-expected'] += sum(exp.values())
        if got != exp:
            miss = dict(exp - got)
            extra = dict(got - exp)
            out.append(V('C16', 'generated-instances', f"{tag}:{'missing' if miss else ''}{'extra' if extra else ''}", f"{tag} over {lst}: generated interrupt acts (key, $index, $value) missing {list(miss.items())[:4]} extra {list(extra.items())[:4]}", scenario=sid))
        # msg acts inside the groups: one completion message per group
        if not m['nested']:
            for a in m['acts']:
                if a['uses'] == MSG:
                    n = sum(1 for e in h.delivers if e['key'] == a['key'] and e['uses'] == MSG)
                    if n != len(lst):
                        out.append(V('C16', 'generated-msg-count', tag, f"msg act {a['key']} in the generator ran {n} times for a list of {len(lst)}", scenario=sid))
        # all at once vs one after another (depth 1 only)
        if not m['nested'] and lst:
            for e in h.qps:
                snap = e.get('snap')
                if not snap:
                    continue
                open_ = [t for p in snap['live'] for t in p['tasks'] if t['uses'] == IRQ and t['state'] == 'interrupted' and t['key'] != 'after']
                groups = {((t.get('data') or {}).get('$index'), self._index_of(h, snap, t)) for t in open_}
                idxs = {self._index_of(h, snap, t) for t in open_}
                obs['c16.qp-group-observations'] += 1
                if kind == SEQ and len(idxs) > 1:
                    out.append(V('C16', 'sequence-groups-overlap', '', f"sequence over {lst}: groups {sorted(idxs, key=str)} are open at the same quiescent point", scenario=sid))
                if kind == PAR and e['n'] == 1 and len(idxs) != len(lst):
                    out.append(V('C16', 'parallel-not-all-at-once', '', f"parallel over {lst}: {len(idxs)} groups open at the first quiescent point", scenario=sid))
            if kind == SEQ:
                order = [opt(e, '$index') for e in created]
                if order != sorted(order, key=lambda x: (x if isinstance(x, int) else -1)):
                    out.append(V('C16', 'sequence-order', '', f"sequence over {lst}: groups were opened in index order {order}", scenario=sid))
        # the generating act completes only after everything it generated is terminal (C03(a) restricted to the generator)
        for v in monitors.mon_c03(h, sc, collections.Counter()):
            if v['rule'] == 'completed-with-open-descendant' and 'act-over-' in v['sig']:
                out.append(V('C16', 'generator-completed-early', tag + ':' + h.race_tag('p1'), v['detail'], scenario=sid))
        # the process finishes (empty list included)
        cb = [e for e in h.cbs if e['what'] == 'complete']
        if len(cb) != 1:
            out.append(V('C16', 'generator-process-did-not-finish', f"{tag}:{'empty' if not lst else 'nonempty'}:{h.race_tag('p1')}", f"{tag} over {lst}: terminal events {[(e['what'], e['state']) for e in h.cbs if e['what'] != 'start']}", scenario=sid))
        return out

    @staticmethod
    def _index_of(h, snap, t):
        """$index of the group a generated task belongs to: found on the enclosing block act's node options; the
        live dump exposes it through the message inputs only, so use the created delivery of this task"""
        for e in h.delivers:
            if e['tid'] == t['tid'] and e['state'] == 'created':
                return ((e.get('inputs') or {}).get('options') or {}).get('$index')
        return None

    def judge_hooks(self, c, obs):
        out = []
        h, sc, m = c['hist'][0], c['scenarios'][0], c['meta']
        sid = sc['id']
        wf = m['wf']
        # a generator bound to a lifecycle event adds ordinary acts below its step: one block and one irq per list element
        extra = {st['id']: 4 * sum(1 for x in st.get('setup') or [] if x['uses'] in (PAR, SEQ)) for st in wf['steps']}
        nacts = {st['id']: len(st['acts']) + extra[st['id']] for st in wf['steps']}
        total = sum(nacts.values())
        for key in m.get('hookgen') or []:
            got = sorted(((e.get('inputs') or {}).get('options') or {}).get('$index', -1) for e in h.delivers if e['key'] == key and e['state'] == 'created')
            reached = any(e['nid'] == 's' + key[2:] and e['new'] == 'running' for e in h.states)
            gen_done = any(e['kind'] == 'act' and e['new'] == 'completed' and (h.create_by.get((e['pid'], e['tid'])) or {}).get('prev') and
                           (h.create_by.get((e['pid'], h.create_by[(e['pid'], e['tid'])]['prev'])) or {}).get('nid') == 's' + key[2:] for e in h.states)
            if not reached:
                continue         # an earlier step never finished (see the hook stall finding): this step was never started
            obs['c16.hook-generators'] += 1
            if got != [0, 1] and not (len(got) < 2 and h.hook_stall('p1')):
                out.append(V('C16', 'hook-generator-instances', '', f"generator bound to `created` over [u, v]: generated irq indexes {got}", scenario=sid))
        if m.get('hookgen'):
            for v in monitors.mon_c03(h, sc, collections.Counter()):
                if v['rule'] == 'completed-with-open-descendant' and v['sig'].startswith('C03/completed-with-open-descendant:act-over-'):
                    out.append(V('C16', 'generator-completed-early', 'hook-generator', v['detail'], scenario=sid))
        cb = [e for e in h.cbs if e['what'] == 'complete']
        if len(cb) != 1:
            why = ('hook-child-finished-last:' + h.hook_stall('p1')) if h.hook_stall('p1') else 'other'
            out.append(V('C16', 'hooked-process-did-not-finish', f"{why}:{h.race_tag('p1')}", f"terminal events {[(e['what'], e['state']) for e in h.cbs if e['what'] != 'start']} [{why}]", scenario=sid))
            return out
        for key, (kind, nid, on) in m['hooks'].items():
            if kind == 'act':
                exp = 1
            elif kind == 'step':
                exp = {'created': 1, 'completed': 1, 'step': 1, 'before_update': nacts[nid], 'updated': nacts[nid]}[on]
            else:
                exp = {'created': 1, 'completed': 1, 'step': len(wf['steps']), 'before_update': total, 'updated': total}[on]
            got = sum(1 for e in h.delivers if e['key'] == key)
            obs[f'c16.hooks:{kind}:{on}'] += 1
            if got != exp:
                out.append(V('C16', 'hook-firings', f"{kind}:{on}:{'more' if got > exp else 'fewer'}:{h.race_tag('p1')}", f"setup act on {kind} {nid} bound to {on}: fired {got} times, expected {exp}", scenario=sid))
        return out

    def judge_push(self, c, obs):
        out = []
        h, sc, m = c['hist'][0], c['scenarios'][0], c['meta']
        sid = sc['id']
        snaps = {o['i']: o['res'] for o in h.ops if o['op'] == 'snapshot'}
        acts = {o['i']: o for o in h.ops if o['op'] == 'act'}
        obs['c16.push-runs'] += 1
        for i, o in sorted(acts.items()):
            op = sc['ops'][i]
            s0, s1 = snaps.get(i - 1), snaps.get(i + 2)
            if not s0 or not s1:
                continue
            # (acts of the step's own lifecycle hooks are not what the push adds)
            n0 = sum(1 for p in s0['live'] for t in p['tasks'] if t['key'] not in ('hu', 'hb'))
            n1 = sum(1 for p in s1['live'] for t in p['tasks'] if t['key'] not in ('hu', 'hb'))
            if op['action'] == 'push':
                if not o['res']['ok']:
                    out.append(V('C16', 'push-refused', '', f"push into the open step was refused: {o['res'].get('err')}", scenario=sid))
                    continue
                key = op['options']['key']
                new = [t for p in s1['live'] for t in p['tasks'] if t['key'] == key]
                if n1 != n0 + 1 or len(new) != 1:
                    out.append(V('C16', 'push-task-count', f"{n1 - n0}", f"push added {n1 - n0} tasks ({len(new)} with the pushed key)", scenario=sid))
                ncreated = sum(1 for e in h.delivers if e['key'] == key and e['state'] == 'created')
                if ncreated != 1:
                    out.append(V('C16', 'push-created-messages', str(ncreated), f"pushed act {key} produced {ncreated} created messages", scenario=sid))
        if m.get('variant') == 'hooks':
            for key in ('hu', 'hb'):
                got = sum(1 for e in h.delivers if e['key'] == key)
                obs['c16.push-hook-counts'] += 1
                if got != m['n'] + m['npush']:
                    out.append(V('C16', 'hook-firings', f"step:{'updated' if key == 'hu' else 'before_update'}:pushed:{'more' if got > m['n'] + m['npush'] else 'fewer'}:{'reloaded' if any(o_['op'] == 'evict' for o_ in sc['ops']) else 'plain'}",
                                 f"the step's {key} hook fired {got} times for {m['n']} declared + {m['npush']} pushed acts", scenario=sid))
        # (whether the step then waits for the pushed act is a matter of hierarchical completion, C03, not of C16)
        return out
