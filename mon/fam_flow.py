"""Family F-flow: generated workflows x inputs x schedules, judged against the reference interpreter (C04)."""
import collections
import json
import random

import flow
from common import IRQ, MSG, TERM, V, digest


class FlowFamily:
    name = 'flow'

    def gen(self, rng, idx, opts):
        sub = opts.get('sub', 'plain')
        twojumps = sub == 'loop' and rng.random() < opts.get('twojumps', 0.3)
        if twojumps:
            # two branches of one step jump back to the same earlier step: every jump that is taken starts that step again
            sub = 'twojumps'
            a, b = rng.randint(0, 2), rng.randint(0, 2)
            bl = [{'id': 'jb1', 'if': 'a > 0', 'steps': [{'id': 's21', 'next': 's1'}]}, {'id': 'jb2', 'if': 'b > 0', 'steps': [{'id': 's22', 'next': 's1'}]}, {'id': 'jb3', 'else': True, 'steps': [{'id': 's23'}]}]
            if rng.random() < 0.5:
                bl[0]['steps'].insert(0, {'id': 's20', 'acts': [{'id': 'm20', 'uses': MSG, 'key': 'm20'}]})
            if rng.random() < 0.5:
                rng.shuffle(bl)
            wf = {'id': 'm1', 'inputs': {'a': 0, 'b': 0}, 'steps': [{'id': 's1', 'acts': [{'id': 'a1', 'uses': IRQ, 'key': 'kj'}]}, {'id': 's2', 'branches': bl}]}
        else:
            wf, a, b = flow.gen_case(rng, sub)
        scheds = opts.get('scheds') or [s[0] for s in flow.SCHEDULES]
        nvar = opts.get('variants', 2)
        scs = []
        chosen = rng.sample(scheds, min(nvar, len(scheds)))
        if opts.get('always_first'):
            chosen = [scheds[0]] + [s for s in chosen if s != scheds[0]][:nvar - 1]
        for j, sname in enumerate(chosen):
            sched = [s for s in flow.SCHEDULES if s[0] == sname][0]
            w = wf
            if sub not in ('loop', 'twojumps') and rng.random() < 0.4:
                w = flow.permute(wf, rng)
            stripped = sub == 'plain' and rng.random() < opts.get('strip', 0.15)
            sc_ = flow.scenario('', flow.strip_ids(w, rng) if stripped else w, a, b, sched, rng.randrange(1 << 30), snap=opts.get('snap', 'rows'), store=opts.get('store', 'mem'))
            if twojumps:
                sc_['responder']['rules'] = [{'match': {'key': 'kj'}, 'action': 'next', 'times': 1}]      # the first pass only
            if stripped:
                sc_['stripped'] = True      # steps / acts without explicit ids: the engine names them, outcomes are compared by kind
                sc_['sched'] += '+noids'
            if sched[2] == 'quiescent' and opts.get('store') == 'sqlite' and rng.random() < opts.get('restart', 0.0):
                # fault: the engine is stopped and a new one started on the same database at a quiescent point
                sc_['faults'] = {'restart_at': sorted(set(rng.randint(1, 5) for _ in range(rng.randint(1, 2))))}
                sc_['sched'] += '+restart'
                sc_['watchdog_ms'] = 60000
            elif sched[2] == 'quiescent' and rng.random() < opts.get('evict', 0.25):
                # fault: the process is dropped from the cache at one or two quiescent points and reloaded by the next action
                pts = sorted(set(rng.randint(1, 6) for _ in range(rng.randint(1, 2))))
                sc_['faults'] = {'evict_at': pts}
                sc_['sched'] += '+evict'
            scs.append(sc_)
        exp, order = (None, None)
        if sub not in ('loop', 'twojumps'):
            exp, order = flow.reference(wf, a, b)
        return {'scenarios': scs, 'meta': {'wf': wf, 'a': a, 'b': b, 'sub': sub, 'expected': exp, 'order': order},
                'digest': digest([wf, a, b]), 'nontrivial': flow.nontrivial(wf)}

    # ---- C04: conformance with the reference interpretation
    def instance_order(self, h, sc, m, obs):
        """per task INSTANCE (matters when a backward jump re-enters a branch list): a needs-branch starts running only
        after a needed sibling under the same parent instance is terminal; an else-branch only after all its if-siblings are"""
        from monitors import model_facts
        out = []
        if sc.get('stripped'):
            return out
        facts = model_facts(sc)
        kids = collections.defaultdict(list)
        for k in h.create_by:
            p = h.parent(k)
            if p:
                kids[p].append(k)
        term = {}
        run = {}
        for e in h.states:
            k = (e['pid'], e['tid'])
            if e['new'] in TERM:
                term.setdefault(k, e['seq'])
            if e['new'] == 'running':
                run.setdefault(k, e['seq'])
        for p, ks in kids.items():
            for k in ks:
                kind, node = facts['nodes'].get(h.create_by[k]['nid'], (None, {}))
                if kind != 'branch' or k not in run:
                    continue
                sibs = {h.create_by[x]['nid']: x for x in ks if x != k}
                if node.get('needs'):
                    obs['c04.instance-needs-checks'] += 1
                    if not any(n in sibs and sibs[n] in term and term[sibs[n]] < run[k] for n in node['needs']):
                        out.append(V('C04', 'order-needs', f"{m['sub']}:instance", f"needs-branch {node['id']} ({k[1]}) started running before any of {node['needs']} under the same parent instance had finished (sched {sc['sched']})", scenario=sc['id']))
                elif node.get('else'):
                    obs['c04.instance-else-checks'] += 1
                    ifs = [x for n, x in sibs.items() if (facts['nodes'].get(n, (None, {}))[1]).get('if') is not None]
                    if not all(x in term and term[x] < run[k] for x in ifs):
                        out.append(V('C04', 'order-else', f"{m['sub']}:instance", f"else-branch {node['id']} ({k[1]}) started running before all its siblings under the same parent instance were decided (sched {sc['sched']})", scenario=sc['id']))
        return out

    def judge(self, c, opts, obs):
        out = []
        m = c['meta']
        for h, sc in zip(c['hist'], c['scenarios']):
            out += self.instance_order(h, sc, m, obs)
            if m['sub'] == 'twojumps':
                out += self.judge_twojumps(h, sc, m, obs)
            elif m['sub'] == 'loop':
                out += self.judge_loop(h, sc, m, obs)
            else:
                out += self.judge_one(h, sc, m, obs)
        return out

    def judge_one(self, h, sc, m, obs):
        out = []
        exp, order = m['expected'], m['order']
        final = h.final_tasks()
        ade = h.race_tag('p1')
        inst = collections.Counter(t['nid'] for t in final.values())
        got = {t['nid']: t['state'] for t in final.values()}
        obs['c04.runs'] += 1
        obs['c04.nodes-compared'] += len(exp)
        tag = f"{m['sub']}:{ade}"
        if sc.get('stripped'):
            # nodes are not addressable by id: compare the multiset of (kind, final state) and the process state
            kinds = {}
            from monitors import walk_nodes
            for n, kind, _ in walk_nodes(m['wf']):
                kinds[n['id']] = kind
            want = collections.Counter((kinds[k], v) for k, v in exp.items())
            have = collections.Counter((t['kind'], t['state']) for t in final.values())
            if want != have:
                out.append(V('C04', 'outcome-multiset', f"noids:{'missing' if want - have else 'extra'}:{tag}", f"id-less model: final (kind, state) counts differ from the reference: missing {dict(want - have)} extra {dict(have - want)} (a={m['a']} b={m['b']} sched {sc['sched']})", scenario=sc['id']))
            p = h.final_procs().get('p1')
            if p is None or p['state'] != 'completed':
                out.append(V('C04', 'process-state', f"{p['state'] if p else 'absent'}:{tag}", f"process ended {p['state'] if p else 'absent'}, reference says completed (sched {sc['sched']})", scenario=sc['id']))
            return out
        dup = [n for n, c_ in inst.items() if c_ > 1]
        if dup:
            out.append(V('C04', 'node-instantiated-twice', tag, f"nodes {dup} have several task instances (inputs a={m['a']} b={m['b']}, sched {sc['sched']})", scenario=sc['id']))
        if set(got) != set(exp):
            miss = sorted(set(exp) - set(got))
            extra = sorted(set(got) - set(exp))
            out.append(V('C04', 'node-set', f"{'missing' if miss else ''}{'+' if miss and extra else ''}{'extra' if extra else ''}:{tag}",
                         f"nodes that ran differ from the reference: missing {miss[:6]} extra {extra[:6]} (a={m['a']} b={m['b']} sched {sc['sched']})", scenario=sc['id']))
        diff = {k: (exp[k], got[k]) for k in exp if k in got and exp[k] != got[k]}
        if diff:
            kinds = sorted({f"{self.kind_of(m['wf'], k)}:{e}->{g}" for k, (e, g) in diff.items()})
            out.append(V('C04', 'final-state', f"{'|'.join(kinds[:3])}:{tag}", f"final states differ from the reference (expected, got): {dict(list(diff.items())[:6])} (a={m['a']} b={m['b']} sched {sc['sched']})", scenario=sc['id']))
        # ordering rules from the transition trace
        created = {}
        term = {}
        running = {}
        for e in h.R:
            if e['t'] == 'create':
                created.setdefault(e['nid'], e['seq'])
            elif e['t'] == 'state':
                if e['new'] in TERM:
                    term.setdefault(e['nid'], e['seq'])
                if e['new'] == 'running':
                    running.setdefault(e['nid'], e['seq'])
        for o in order:
            obs['c04.order-rules-checked'] += 1
            if o[0] == 'seq':
                x, y = o[1], o[2]
                if y in created and not (x in term and term[x] < created[y]):
                    out.append(V('C04', 'order-seq', tag, f"{y} was created before its predecessor {x} was terminal (sched {sc['sched']})", scenario=sc['id']))
            elif o[0] == 'needs':
                xs, y = o[1], o[2]
                if y in running and not any(x in term and term[x] < running[y] for x in xs):
                    out.append(V('C04', 'order-needs', tag, f"needs-branch {y} ran before any of {xs} finished (sched {sc['sched']})", scenario=sc['id']))
            elif o[0] == 'else':
                xs, y = o[1], o[2]
                if y in running and not all(x in term and term[x] < running[y] for x in xs):
                    out.append(V('C04', 'order-else', tag, f"else-branch {y} ran before all of {xs} were decided (sched {sc['sched']})", scenario=sc['id']))
        # final process state
        procs = h.final_procs()
        p = procs.get('p1')
        if p is None or p['state'] != 'completed':
            out.append(V('C04', 'process-state', f"{p['state'] if p else 'absent'}:{tag}", f"process ended {p['state'] if p else 'absent'}, reference says completed (a={m['a']} b={m['b']} sched {sc['sched']})", scenario=sc['id']))
        return out

    def judge_twojumps(self, h, sc, m, obs):
        out = []
        jumps = (1 if m['a'] > 0 else 0) + (1 if m['b'] > 0 else 0)
        inst = collections.Counter(e['nid'] for e in h.creates)
        obs[f'c04.two-jumps-to-one-step:jumps={jumps}'] += 1
        if inst['s1'] != 1 + jumps or inst['a1'] != 1 + jumps:
            out.append(V('C04', 'jump-instances', f"jumps={jumps}", f"{jumps} branches jump back to s1 (a={m['a']}, b={m['b']}): s1 was started {inst['s1']} times (its act {inst['a1']} times), expected {1 + jumps}", scenario=sc['id']))
        if (inst['s23'] == 1) != (jumps == 0):
            out.append(V('C04', 'branch-selection', 'else:twojumps', f"else branch jb3 ran {inst['s23']} times with a={m['a']}, b={m['b']}", scenario=sc['id']))
        return out

    def judge_loop(self, h, sc, m, obs):
        """loop idiom: the body runs exactly `a` times, `end` runs once, the process completes;
        states of instances abandoned by the jump are don't-care here (C03 looks at them)"""
        out = []
        final = h.final_tasks()
        n = m['a']
        inst = collections.Counter(t['nid'] for t in final.values())
        obs['c04.loop-runs'] += 1
        if inst['inc'] != n or inst['body'] != n:
            out.append(V('C04', 'loop-iterations', '', f"loop body ran {inst['body']} times (inc {inst['inc']}), expected {n}", scenario=sc['id']))
        ends = [t for t in final.values() if t['nid'] == 'end']
        if len(ends) != 1 or ends[0]['state'] != 'completed':
            out.append(V('C04', 'loop-exit', '', f"step end: {[t['state'] for t in ends]}", scenario=sc['id']))
        p = h.final_procs().get('p1')
        if p is None or p['state'] != 'completed':
            out.append(V('C04', 'process-state', f"{p['state'] if p else 'absent'}:loop", f"loop process ended {p['state'] if p else 'absent'}", scenario=sc['id']))
        root = final.get(('p1', '$'))
        if root and (root.get('data') or {}).get('i') != n:
            out.append(V('C04', 'loop-counter', '', f"counter i = {(root.get('data') or {}).get('i')} expected {n}", scenario=sc['id']))
        return out

    @staticmethod
    def kind_of(wf, nid):
        from monitors import walk_nodes
        for n, kind, _ in walk_nodes(wf):
            if n.get('id') == nid:
                if kind == 'branch':
                    return 'branch-else' if n.get('else') else 'branch-needs' if n.get('needs') else 'branch-if'
                return kind
        return '?'
