"""Family F-restart (C12, fault enumeration): run A uninterrupted with the deterministic sequential client; run
B_i = the same scenario with the process evicted from the cache (memory store) or the engine restarted on the
same database (SQLite) at quiescent point i, for EVERY quiescent point of A (thorough: also pairs of points).
Oracle: B's messages, final task outcomes and terminal outputs equal A's after normalisation (ids, times and
tids dropped; run-time generated nodes named by key / uses / $index / $value)."""
import collections
import json
import random

import flow
from common import IRQ, V, digest
from fam_data import DataFamily
from fam_error import ErrorFamily
from fam_gen import GenFamily
from fam_flow import FlowFamily
from fam_sub import SubFamily

DET = {'flavor': 'current'}


def declared_ids(models):
    acc = set()

    def walk(v):
        if isinstance(v, dict):
            if isinstance(v.get('id'), str):
                acc.add(v['id'])
            for x in v.values():
                walk(x)
        elif isinstance(v, list):
            for x in v:
                walk(x)
    for m in models:
        walk(json.loads(m) if isinstance(m, str) else m)
    return acc


def clean(v):
    if isinstance(v, dict):
        return {k: clean(x) for k, x in v.items() if not k.startswith('$') and k not in ('step',)}
    if isinstance(v, list):
        return [clean(x) for x in v]
    return v


def normal_form(h, declared):
    msgs = collections.Counter()
    for e in h.delivers:
        opts = (e.get('inputs') or {}).get('options') or {}
        name = e['nid'] if e['nid'] in declared else '~'
        msgs[(e['pid'], e['type'], name, ('~' if name == '~' and e['key'] == e['nid'] else e['key']), e['uses'], e['state'], e['tag'], json.dumps(opts.get('$index')), json.dumps(opts.get('$value')),
              json.dumps(clean(e.get('inputs')), sort_keys=True), json.dumps(clean(e.get('outputs')), sort_keys=True))] += 1
    cbs = collections.Counter((e['pid'], e['what'], e['state'], json.dumps(clean(e.get('outputs')), sort_keys=True)) for e in h.cbs)
    # final task outcomes from the task rows (which processes are cached at the end is not part of the outcome)
    snap = h.final_snapshot() or {}
    fin = collections.Counter()
    if isinstance(snap.get('tasks'), list):
        for r in snap['tasks']:
            try:
                nid = json.loads(r['node_data']).get('id')
            except Exception:
                nid = None
            fin[(r['pid'], nid if nid in declared else '~', r['kind'], r['state'])] += 1
    else:
        fin = collections.Counter((k[0], t['nid'] if t['nid'] in declared else '~', t['kind'], t['state']) for k, t in h.final_tasks().items())
    return msgs, cbs, fin


class RestartFamily:
    name = 'restart'
    BASES = {'flow': FlowFamily(), 'gen': GenFamily(), 'data': DataFamily(), 'error': ErrorFamily(), 'sub': SubFamily()}

    def gen(self, rng, idx, opts):
        base = opts.get('base') or rng.choice(['flow', 'flow', 'gen', 'data', 'error', 'sub'])
        store = opts.get('store', 'mem')
        fam = self.BASES[base]
        sub_opts = {'flow': {'sub': 'plain', 'variants': 1, 'scheds': ['cur-fifo']}, 'gen': {'sub': rng.choice(['gen', 'gen', 'hooks'])}, 'data': {'envheavy': 0.4}, 'error': {'evict': 0.0}, 'sub': {'evict': 0.0, 'orphan': 0.0}}[base]
        c = fam.gen(rng, idx, sub_opts)
        sc = c['scenarios'][0]
        sc['runtime'] = dict(DET)
        sc['responder']['mode'] = 'quiescent'
        sc['responder']['order'] = 'fifo'
        sc['engine'] = {'store': store, 'keep_processes': True}
        sc.pop('faults', None)
        sc['ops'] = [o if o.get('op') != 'run' else {'op': 'run', 'snap': 'none'} for o in sc['ops']]
        sc['ops'] = [o if o.get('op') != 'snapshot' else {'op': 'snapshot', 'level': 'rows'} for o in sc['ops']]
        if base == 'flow' and rng.random() < 0.3:
            sc['models'] = [json.dumps(flow.strip_ids(json.loads(sc['models'][0]), rng))]
        sc['family'] = 'restart'
        sc['sched'] = f'{base}-{store}-A'
        if store == 'sqlite':
            sc['watchdog_ms'] = 60000
        return {'scenarios': [sc], 'meta': {'base': base, 'store': store, 'n_first_round': 1, 'basemeta': {k: v for k, v in (c.get('meta') or {}).items() if k in ('sub', 'kind', 'source', 'nested')} | ({'sub': 'hooks+gen'} if (c.get('meta') or {}).get('hookgen') else {}), 'pairs': opts.get('pairs', False)},
                'digest': digest([sc['models'], sc['ops'], sc['responder']['rules'], store]), 'nontrivial': True}

    def followup(self, c, opts, rnd):
        if rnd != 2:
            return []
        a = c['hist'][0]
        if not a.conclusive():
            return []
        n = sum(1 for q in a.qps if not q.get('final'))
        c['meta']['points'] = n
        sc = c['scenarios'][0]
        out = []
        key = 'evict_at' if c['meta']['store'] == 'mem' else 'restart_at'
        pts = [[i] for i in range(1, n + 1)]
        if c['meta'].get('pairs') and n >= 2:
            rr = random.Random(n)
            pairs = [[i, j] for i in range(1, n + 1) for j in range(i + 1, n + 1)]
            rr.shuffle(pairs)
            pts += pairs[:6]
        for p in pts[:24]:
            b = json.loads(json.dumps(sc))
            b['faults'] = {key: p}
            b['id'] = sc['id'] + '-B' + '_'.join(map(str, p))
            b['sched'] = sc['sched'][:-1] + 'B' + '_'.join(map(str, p))
            out.append(b)
        return out

    def judge(self, c, opts, obs):
        out = []
        m = c['meta']
        a = c['hist'][0]
        sc = c['scenarios'][0]
        declared = declared_ids(sc['models'])
        na = normal_form(a, declared)
        obs[f"c12.base-runs:{m['base']}:{m['store']}"] += 1
        obs['c12.restart-points'] += len(c['hist']) - 1
        for h, b in zip(c['hist'][1:], c['scenarios'][1:]):
            nb = normal_form(h, declared)
            pts = b['faults'].get('evict_at') or b['faults'].get('restart_at')
            obs['c12.fault-runs'] += 1
            tag = f"{m['base']}{':' + str(m['basemeta'].get('sub') or m['basemeta'].get('source') or '') if m['basemeta'] else ''}:{m['store']}"
            failed = [f for f in h.by['fault'] if f.get('what') == 'restart_failed']
            acts_failed = [x for x in h.actions if not x['ok'] and 'cannot find process' in (x.get('err') or '')]
            if acts_failed:
                out.append(V('C12', 'process-lost', tag, f"after the {'eviction' if m['store'] == 'mem' else 'restart'} at point {pts} the client's next action failed: {acts_failed[0]['err'][:80]}", scenario=b['id']))
                continue
            if na == nb:
                continue
            miss = na[0] - nb[0]
            extra = nb[0] - na[0]
            cls = set()
            for k in list(miss) + list(extra):
                if k[2] == '~':
                    cls.add('generated-node-messages')
                else:
                    same_key = [x for x in (list(miss) if k in extra else list(extra)) if x[:6] == k[:6]]
                    cls.add(f"messages:{k[1]}:{k[5]}:{'content' if same_key else 'missing' if k in miss else 'extra'}")
            if sorted(k[1:3] for k in na[1]) != sorted(k[1:3] for k in nb[1]):
                cls = {'terminal-event-differs'}
            elif na[1] != nb[1]:
                cls.add('terminal-outputs')
            if 'terminal-event-differs' not in cls:
                for k in list((na[2] - nb[2]).keys()) + list((nb[2] - na[2]).keys()):
                    cls.add('generated-node-tasks' if k[1] == '~' else f"final-task:{k[2]}:{k[3]}")
            what = sorted(cls, key=lambda c_: (not c_.startswith('generated-node'), c_))      # (the list is cut at 120 characters: the classes of the known reload defect come first)
            detail = f"run with {'eviction' if m['store'] == 'mem' else 'restart'} at quiescent point {pts} differs from the uninterrupted run: missing messages {[k[1:6] for k in list(miss)[:3]]} extra {[k[1:6] for k in list(extra)[:3]]}; events A {sorted(k[1:3] for k in na[1])} B {sorted(k[1:3] for k in nb[1])}"
            out.append(V('C12', 'divergence', f"{'|'.join(what)[:120]}:{tag}", detail, scenario=b['id']))
        return out
