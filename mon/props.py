"""Which families feed which monitors under which property id, with budgets per tier."""
import monitors as M
from fam_flow import FlowFamily
from fam_actions import ActionsFamily
from fam_store import StoreFamily
from fam_model import ModelFamily
from fam_chan import ChanFamily
from fam_script import ScriptFamily
from fam_error import ErrorFamily
from fam_data import DataFamily, IsolationFamily
from fam_timeout import TimeoutFamily
from fam_ack import AckFamily
from fam_gen import GenFamily
from fam_sub import SubFamily
from fam_retention import RetentionFamily
from fam_restart import RestartFamily
from fam_load import LoadFamily, RestoreBatchFamily

FLOW = FlowFamily()
ACTIONS = ActionsFamily()
STORE = StoreFamily()
MODEL = ModelFamily()
CHAN = ChanFamily()
SCRIPT = ScriptFamily()
ERROR = ErrorFamily()
DATA = DataFamily()
DATAISO = IsolationFamily()
TIMEOUT = TimeoutFamily()
ACK = AckFamily()
GEN = GenFamily()
SUB = SubFamily()
RETENTION = RetentionFamily()
RESTART = RestartFamily()
LOAD = LoadFamily()
RESTOREBATCH = RestoreBatchFamily()

QUIESCENT = ['cur-fifo', 'cur-chaos', 'cur-chaos-lifo', 'mt2-chaos', 'mt4-chaos', 'mt8']
ALLSCHED = QUIESCENT + ['cur-inline', 'mt2-inline']


def part(name, family, quick, thorough, monitors=(), judge=False, props=None, **opts):
    return {'name': name, 'family': family, 'quick': quick, 'thorough': thorough, 'monitors': list(monitors), 'judge': judge, 'props': props, 'opts': opts}


PROPS = {
    'C13': {
        'level': 'exploration',
        'rule': 'distinct (models, process mix with inputs, cache capacity, worker threads, client mode) configurations; every process is compared with the solo run of its (model, inputs)',
        'parts': [
            part('load', LOAD, 260, 5000, judge=True, props=['C13'], chunk=12, ns=[2, 4, 8]),
            part('big', LOAD, 16, 600, judge=True, props=['C13'], chunk=2, ns=[16, 32, 64], kind='static'),
            part('storm', LOAD, 500, 8000, judge=True, props=['C13'], chunk=25, ns=[2, 3], storm=1.0, caps=[1024]),
            part('restore', RESTOREBATCH, 150, 3000, judge=True, props=['C13'], chunk=15),
            part('churn', LOAD, 350, 5000, judge=True, props=['C13'], chunk=10, ns=[8, 16], churn=1.0, storm=0.0, caps=[1024, 1024, 4]),
        ],
    },
    'C12': {
        'level': 'fault_enumeration',
        'rule': 'distinct base scenarios (flow / generator / hooks / data-flow / error-catch programs with a deterministic client); for each, EVERY quiescent point of the uninterrupted run is used as eviction (memory store) or engine-restart (SQLite) point',
        'parts': [
            part('evict', RESTART, 220, 4000, judge=True, props=['C12'], chunk=15, store='mem'),
            part('sqlite', RESTART, 40, 800, judge=True, props=['C12'], chunk=3, store='sqlite'),
            part('pairs', RESTART, 40, 1500, judge=True, props=['C12'], chunk=10, store='mem', pairs=True),
            part('sqlite-data', RESTART, 30, 600, judge=True, props=['C12'], chunk=3, store='sqlite', base='data'),
            part('sqlite-error', RESTART, 15, 300, judge=True, props=['C12'], chunk=3, store='sqlite', base='error'),
        ],
    },
    'C17': {
        'level': 'exploration',
        'rule': 'distinct (models, interleaved process script, keep_processes, store) workloads; complete row sets of all collections compared after every operation',
        'parts': [
            part('mix', RETENTION, 700, 20000, judge=True, props=['C17'], chunk=40),
            part('sqlite', RETENTION, 100, 2500, judge=True, props=['C17'], chunk=15, store='sqlite'),
        ],
    },
    'C15': {
        'level': 'exploration',
        'rule': 'distinct (chain depth, leaf ending or missing model, parallel parent activity, runtime, client mode, answer order) configurations',
        'parts': [part('sub', SUB, 1500, 40000, judge=True, props=['C15'], chunk=80),
                  part('sqlite', SUB, 50, 1000, judge=True, props=['C15'], chunk=8, store='sqlite', restart=0.7)],
    },
    'C16': {
        'level': 'exploration',
        'rule': 'distinct generator models with a non-empty list (kind, list, inner acts, nesting), distinct hook placements with at least one hook, distinct push scripts',
        'parts': [
            part('gen', GEN, 1200, 30000, judge=True, props=['C16'], sub='gen', chunk=80),
            part('hooks', GEN, 800, 20000, judge=True, props=['C16'], sub='hooks', chunk=80),
            part('push', GEN, 300, 6000, judge=True, props=['C16'], sub='push', chunk=40),
            part('hooks-sqlite', GEN, 40, 800, judge=True, props=['C16'], sub='hooks', chunk=10, store='sqlite', restart=True),
        ],
    },
    'C09': {
        'level': 'exploration',
        'rule': 'distinct (model, ack rules, op script with tick spacings / redo / clear / actions, retry limit, interval, store) cases',
        'parts': [
            part('ack', ACK, 1200, 30000, judge=True, props=['C09'], chunk=80),
            part('sqlite', ACK, 150, 3000, judge=True, props=['C09'], chunk=20, store='sqlite'),
        ],
    },
    'C19': {
        'level': 'exploration',
        'rule': 'distinct (rule set, placement on step or act, tick times relative to the limits, answer moment) cases on the virtual clock',
        'parts': [part('timeout', TIMEOUT, 1500, 40000, judge=True, props=['C19'], chunk=100),
                  part('sqlite', TIMEOUT, 50, 1000, judge=True, props=['C19'], chunk=6, store='sqlite', race=0.0)],
    },
    'C07': {
        'level': 'exploration',
        'rule': 'distinct generated data-flow programs with at least one reader observation (each write stores a fresh tag), plus distinct multi-process isolation mixes',
        'parts': [
            part('data', DATA, 1500, 40000, judge=True, props=['C07'], chunk=100),
            part('iso', DATAISO, 300, 8000, judge=True, props=['C07'], chunk=40),
        ],
    },
    'C06': {
        'level': 'exploration',
        'rule': 'distinct (model with generated catch placement, error code / error source) pairs',
        'parts': [
            part('error', ERROR, 2000, 50000, judge=True, props=['C06'], chunk=100),
            part('sqlite', ERROR, 60, 1200, judge=True, props=['C06'], store='sqlite', restart=0.6, chunk=8),
        ],
    },
    'C14': {
        'level': 'exploration',
        'rule': 'distinct JSON values that are composite, beyond 32 bits, floats or non-ASCII / escape-bearing strings, plus distinct template sets with at least one expression',
        'parts': [
            part('values', SCRIPT, 2500, 80000, judge=True, props=['C14'], sub='value', chunk=150),
            part('templates', SCRIPT, 1500, 40000, judge=True, props=['C14'], sub='template', chunk=150),
            part('values-sqlite', SCRIPT, 60, 1500, judge=True, props=['C14'], sub='value', chunk=10, store='sqlite'),
        ],
    },
    'C18': {
        'level': 'exploration',
        'rule': 'distinct (model, channel filter set, op script) cases; every (registration, message) pair is one decision of the independent matcher',
        'parts': [part('chan', CHAN, 1200, 30000, judge=True, props=['C18'], chunk=100)],
    },
    'C20': {
        'level': 'exploration',
        'rule': 'distinct generated workflow values with at least three tree nodes (all optional fields, unicode / YAML-hostile text, nested catches, timeouts, setup; 30% with an injected duplicate node id)',
        'parts': [part('models', MODEL, 2000, 60000, judge=True, props=['C20'], chunk=150)],
    },
    'C10': {
        'level': 'exploration',
        'rule': 'distinct operation sequences (60 ops over one collection, every record field a distinct random value), each applied to the in-memory and the SQLite back end',
        'parts': [part('ops', STORE, 300, 10000, judge=True, props=['C10'], nops=60, chunk=20)],
    },
    'C01': {
        'level': 'exploration',
        'rule': 'distinct (model, inputs) pairs with at least one branch list or three acts, each run under 2-3 schedules / client modes; every quiescent point of every run is evaluated',
        'parts': [
            part('plain', FLOW, 900, 12000, monitors=[M.mon_c01], props=['C01'], sub='plain', variants=3, scheds=ALLSCHED, snap='live'),
            part('mixed', FLOW, 150, 2000, monitors=[M.mon_c01], props=['C01'], sub='mixed', variants=2, scheds=QUIESCENT, snap='live'),
            part('loop', FLOW, 60, 600, monitors=[M.mon_c01], props=['C01'], sub='loop', twojumps=0.0, variants=2, scheds=QUIESCENT, snap='live'),
            part('error', ERROR, 300, 6000, monitors=[M.mon_c01], props=['C01'], chunk=60),
            part('sub', SUB, 250, 5000, monitors=[M.mon_c01], props=['C01'], chunk=60),
            part('gen', GEN, 250, 5000, monitors=[M.mon_c01], props=['C01'], chunk=60, sub='gen'),
            part('hooks', GEN, 250, 5000, monitors=[M.mon_c01], props=['C01'], chunk=60, sub='hooks'),
            part('matrix', ACTIONS, 500, 10000, monitors=[M.mon_c01], props=['C01'], sub='matrix'),
            part('duel', ACTIONS, 300, 6000, monitors=[M.mon_c01], props=['C01'], sub='duel'),
            part('b2b', ACTIONS, 900, 12000, monitors=[M.mon_c01], props=['C01'], sub='b2b'),
            part('timeout', TIMEOUT, 250, 5000, monitors=[M.mon_c01], props=['C01'], chunk=80),
            part('midflight', ACTIONS, 400, 8000, monitors=[M.mon_c01], props=['C01'], sub='midflight'),
            part('block', GEN, 250, 5000, monitors=[M.mon_c01], props=['C01'], chunk=80, sub='block'),
            part('flow-sqlite', FLOW, 40, 800, monitors=[M.mon_c01], props=['C01'], sub='plain', variants=1, scheds=['cur-fifo', 'cur-chaos'], snap='live', store='sqlite', restart=0.6, chunk=8),
            part('error-sqlite', ERROR, 40, 800, monitors=[M.mon_c01], props=['C01'], store='sqlite', restart=0.6, chunk=8, snap='live'),
        ],
    },
    'C02': {
        'level': 'exploration',
        'rule': 'distinct (model, action script / inputs) cases; every task state write of every run is checked',
        'parts': [
            part('matrix', ACTIONS, 1200, 20000, monitors=[M.mon_c02], props=['C02'], sub='matrix'),
            part('duel', ACTIONS, 500, 10000, monitors=[M.mon_c02], props=['C02'], sub='duel'),
            part('twins', ACTIONS, 300, 6000, monitors=[M.mon_c02], props=['C02'], sub='twins'),
            part('plain', FLOW, 300, 6000, monitors=[M.mon_c02], props=['C02'], sub='plain', variants=2, scheds=ALLSCHED, snap='live'),
            part('loop', FLOW, 40, 400, monitors=[M.mon_c02], props=['C02'], sub='loop', twojumps=0.0, variants=2, scheds=QUIESCENT, snap='live'),
            part('error', ERROR, 500, 8000, monitors=[M.mon_c02], props=['C02'], chunk=60, second_error=True),
            part('gen', GEN, 200, 4000, monitors=[M.mon_c02], props=['C02'], chunk=60, sub='gen'),
            part('sub', SUB, 200, 4000, monitors=[M.mon_c02], props=['C02'], chunk=60),
            part('b2b', ACTIONS, 900, 12000, monitors=[M.mon_c02], props=['C02'], sub='b2b'),
            part('timeout', TIMEOUT, 250, 5000, monitors=[M.mon_c02], props=['C02'], chunk=80),
            part('midflight', ACTIONS, 400, 8000, monitors=[M.mon_c02], props=['C02'], sub='midflight'),
            part('block', GEN, 250, 5000, monitors=[M.mon_c02], props=['C02'], chunk=80, sub='block'),
            part('flow-sqlite', FLOW, 40, 800, monitors=[M.mon_c02], props=['C02'], sub='plain', variants=1, scheds=['cur-fifo', 'cur-chaos'], snap='live', store='sqlite', restart=0.6, chunk=8),
            part('error-sqlite', ERROR, 40, 800, monitors=[M.mon_c02], props=['C02'], store='sqlite', restart=0.6, chunk=8, snap='live'),
        ],
    },
    'C03': {
        'level': 'exploration',
        'rule': 'distinct (model, action script / inputs) cases; parent completions, process/root agreement at every snapshot and event multiplicity are checked on every run',
        'parts': [
            part('matrix', ACTIONS, 900, 15000, monitors=[M.mon_c03], props=['C03'], sub='matrix'),
            part('duel', ACTIONS, 500, 10000, monitors=[M.mon_c03], props=['C03'], sub='duel'),
            part('plain', FLOW, 500, 8000, monitors=[M.mon_c03], props=['C03'], sub='plain', variants=2, scheds=ALLSCHED),
            part('mixed', FLOW, 100, 1500, monitors=[M.mon_c03], props=['C03'], sub='mixed', variants=2, scheds=QUIESCENT),
            part('loop', FLOW, 60, 600, monitors=[M.mon_c03], props=['C03'], sub='loop', twojumps=0.0, variants=2, scheds=QUIESCENT),
            part('error', ERROR, 300, 6000, monitors=[M.mon_c03], props=['C03'], chunk=60, second_error=True),
            part('b2b', ACTIONS, 900, 12000, monitors=[M.mon_c03], props=['C03'], sub='b2b'),
            part('timeout', TIMEOUT, 250, 5000, monitors=[M.mon_c03], props=['C03'], chunk=80),
            part('midflight', ACTIONS, 400, 8000, monitors=[M.mon_c03], props=['C03'], sub='midflight'),
            part('block', GEN, 250, 5000, monitors=[M.mon_c03], props=['C03'], chunk=80, sub='block'),
            part('flow-sqlite', FLOW, 40, 800, monitors=[M.mon_c03], props=['C03'], sub='plain', variants=1, scheds=['cur-fifo', 'cur-chaos'], snap='rows', store='sqlite', restart=0.6, chunk=8),
            part('error-sqlite', ERROR, 40, 800, monitors=[M.mon_c03], props=['C03'], store='sqlite', restart=0.6, chunk=8, snap='rows'),
        ],
    },
    'C08': {
        'level': 'exploration',
        'rule': 'distinct (model, action script / inputs) cases; every generated and delivered message of every run is checked',
        'parts': [
            part('plain', FLOW, 700, 10000, monitors=[M.mon_c08], props=['C08'], sub='plain', variants=3, scheds=ALLSCHED, snap='live'),
            part('matrix', ACTIONS, 700, 12000, monitors=[M.mon_c08], props=['C08'], sub='matrix'),
            part('duel', ACTIONS, 300, 6000, monitors=[M.mon_c08], props=['C08'], sub='duel'),
            part('loop', FLOW, 40, 400, monitors=[M.mon_c08], props=['C08'], sub='loop', twojumps=0.0, variants=2, scheds=QUIESCENT, snap='live'),
            part('error', ERROR, 300, 6000, monitors=[M.mon_c08], props=['C08'], chunk=60, second_error=True),
            part('gen', GEN, 200, 4000, monitors=[M.mon_c08], props=['C08'], chunk=60, sub='gen'),
            part('hooks', GEN, 200, 4000, monitors=[M.mon_c08], props=['C08'], chunk=60, sub='hooks'),
            part('sub', SUB, 200, 4000, monitors=[M.mon_c08], props=['C08'], chunk=60),
            part('b2b', ACTIONS, 900, 12000, monitors=[M.mon_c08], props=['C08'], sub='b2b'),
            part('timeout', TIMEOUT, 250, 5000, monitors=[M.mon_c08], props=['C08'], chunk=80),
            part('midflight', ACTIONS, 400, 8000, monitors=[M.mon_c08], props=['C08'], sub='midflight'),
            part('block', GEN, 250, 5000, monitors=[M.mon_c08], props=['C08'], chunk=80, sub='block'),
            part('flow-sqlite', FLOW, 40, 800, monitors=[M.mon_c08], props=['C08'], sub='plain', variants=1, scheds=['cur-fifo', 'cur-chaos'], snap='live', store='sqlite', restart=0.6, chunk=8),
            part('error-sqlite', ERROR, 40, 800, monitors=[M.mon_c08], props=['C08'], store='sqlite', restart=0.6, chunk=8, snap='live'),
            part('plain-app', FLOW, 150, 3000, monitors=[M.mon_c08], props=['C08'], sub='plain', variants=2, scheds=ALLSCHED, snap='live', app_packages=True),
            part('hooks-app', GEN, 100, 2000, monitors=[M.mon_c08], props=['C08'], chunk=60, sub='hooks', app_packages=True),
            part('twoack', ACTIONS, 100, 2000, monitors=[M.mon_c08, M.mon_c08_mirror], props=['C08'], sub='matrix', mirror=True, chunk=50),
            part('twoack-sqlite', ACTIONS, 30, 600, monitors=[M.mon_c08, M.mon_c08_mirror], props=['C08'], sub='matrix', mirror=True, store='sqlite', chunk=8),
        ],
    },
    'C11': {
        'level': 'exploration',
        'rule': 'distinct (model, action script / inputs) cases; live dump vs store rows compared at every quiescent point',
        'parts': [
            part('plain', FLOW, 500, 8000, monitors=[M.mon_c11], props=['C11'], sub='plain', variants=2, scheds=QUIESCENT, snap='rows'),
            part('matrix', ACTIONS, 500, 8000, monitors=[M.mon_c11], props=['C11'], sub='matrix'),
            part('sqlite', FLOW, 60, 800, monitors=[M.mon_c11], props=['C11'], sub='plain', variants=1, scheds=['cur-fifo', 'cur-chaos'], snap='rows', store='sqlite'),
            part('error', ERROR, 300, 5000, monitors=[M.mon_c11], props=['C11'], chunk=60, snap='rows', evict=0.0),
            part('data', DATA, 300, 5000, monitors=[M.mon_c11], props=['C11'], chunk=60, snap='rows'),
            part('gen', GEN, 200, 4000, monitors=[M.mon_c11], props=['C11'], chunk=60, sub='gen', snap='rows'),
            part('hooks', GEN, 150, 3000, monitors=[M.mon_c11], props=['C11'], chunk=60, sub='hooks', snap='rows'),
            part('sub', SUB, 150, 3000, monitors=[M.mon_c11], props=['C11'], chunk=60, snap='rows'),
            part('error-sqlite', ERROR, 40, 800, monitors=[M.mon_c11], props=['C11'], chunk=10, snap='rows', evict=0.0, store='sqlite'),
            part('hooks-sqlite', GEN, 30, 600, monitors=[M.mon_c11], props=['C11'], chunk=10, sub='hooks', snap='rows', store='sqlite'),
            part('timeout', TIMEOUT, 200, 4000, monitors=[M.mon_c11], props=['C11'], chunk=60, snap='rows'),
            part('b2b', ACTIONS, 300, 6000, monitors=[M.mon_c11], props=['C11'], sub='b2b'),
            part('duel', ACTIONS, 150, 3000, monitors=[M.mon_c11], props=['C11'], sub='duel'),
            part('midflight', ACTIONS, 300, 6000, monitors=[M.mon_c11], props=['C11'], sub='midflight'),
        ],
    },
    'C05': {
        'level': 'exploration',
        'rule': 'distinct (model, action script) pairs of the action matrix plus distinct (acts, raced position, action, threads, workers, pause) twin-race configurations',
        'parts': [
            part('matrix', ACTIONS, 1200, 20000, judge=True, props=['C05'], sub='matrix'),
            part('twins', ACTIONS, 1500, 40000, judge=True, props=['C05'], sub='twins'),
            part('b2b', ACTIONS, 600, 10000, monitors=[M.mon_c05_generic], props=['C05'], sub='b2b'),
            part('composite', ACTIONS, 400, 8000, monitors=[M.mon_c05_generic], props=['C05'], sub='composite'),
            part('duel', ACTIONS, 300, 6000, monitors=[M.mon_c05_generic], props=['C05'], sub='duel'),
            part('midflight', ACTIONS, 400, 8000, monitors=[M.mon_c05_generic], props=['C05'], sub='midflight'),
        ],
    },
    'C04': {
        'level': 'exploration',
        'rule': 'distinct (model, a, b) triples of the bounded grammar with at least one branch list or three acts; each is run under 2-3 schedules and branch permutations',
        'parts': [
            part('plain', FLOW, 700, 8000, judge=True, props=['C04'], sub='plain', variants=3, scheds=ALLSCHED),
            part('loop', FLOW, 60, 600, judge=True, props=['C04'], sub='loop', variants=2, scheds=QUIESCENT),
            part('mixed', FLOW, 120, 1500, judge=True, props=['C04'], sub='mixed', variants=2, scheds=QUIESCENT),
            part('sqlite', FLOW, 40, 800, judge=True, props=['C04'], sub='plain', variants=1, scheds=['cur-fifo', 'cur-chaos'], store='sqlite', restart=0.6, chunk=8),
        ],
    },
}
