"""Which families feed which monitors under which property id, with budgets per tier."""
import monitors as M
from fam_flow import FlowFamily

FLOW = FlowFamily()

QUIESCENT = ['cur-fifo', 'cur-chaos', 'cur-chaos-lifo', 'mt2-chaos', 'mt4-chaos', 'mt8']
ALLSCHED = QUIESCENT + ['cur-inline', 'mt2-inline']


def part(name, family, quick, thorough, monitors=(), judge=False, props=None, **opts):
    return {'name': name, 'family': family, 'quick': quick, 'thorough': thorough, 'monitors': list(monitors), 'judge': judge, 'props': props, 'opts': opts}


PROPS = {
    'C04': {
        'level': 'exploration',
        'rule': 'distinct (model, a, b) triples of the bounded grammar with at least one branch list or three acts; each is run under 2-3 schedules and branch permutations',
        'parts': [
            part('plain', FLOW, 700, 8000, judge=True, props=['C04'], sub='plain', variants=3, scheds=ALLSCHED),
            part('loop', FLOW, 60, 600, judge=True, props=['C04'], sub='loop', variants=2, scheds=QUIESCENT),
            part('mixed', FLOW, 120, 1500, judge=True, props=['C04'], sub='mixed', variants=2, scheds=QUIESCENT),
        ],
    },
}
