"""Family F-error (C06): catches at act level, step level, enclosing step; several codes, catch-all, empty
catch, non-matching catch; errors raised by the `error` action, by a throwing script and by invalid package
parameters; judged against reference error-propagation / catch semantics."""
import collections
import json

from common import IRQ, MSG, TERM, V, digest

CODES = ['e1', 'e2', 'e3']


class G:
    def __init__(self, r):
        self.r = r
        self.n = 0

    def nid(self, p):
        self.n += 1
        return f'{p}{self.n}'

    def plain_act(self):
        a = {'id': self.nid('a')}
        if self.r.random() < 0.6:
            a.update(uses=IRQ, key='k')
        else:
            a.update(uses=MSG, key='m')
        return a

    def catch_steps(self):
        steps = [{'id': self.nid('c'), 'acts': [self.plain_act() for _ in range(self.r.randint(0, 2))]} for _ in range(self.r.randint(0, 2))]
        for st in steps:
            for a in st['acts']:
                if a['uses'] == IRQ:
                    a['key'] = 'kc'
        return steps

    def catches(self):
        n = self.r.randint(0, 3)
        cs, used = [], set()
        for _ in range(n):
            on = self.r.choice(CODES + [None])
            if on in used:
                continue
            used.add(on)
            c = {'steps': self.catch_steps()}
            if on:
                c['on'] = on
            cs.append(c)
        return cs

    def wf(self, source):
        if source == 'action':
            err_act = {'id': 'AE', 'uses': IRQ, 'key': 'ke', 'catches': self.catches()}
        elif source == 'script':
            err_act = {'id': 'AE', 'uses': 'acts.transform.code', 'params': 'throw new Error("boom");', 'catches': self.catches()}
        elif source == 'unknown':
            err_act = {'id': 'AE', 'uses': 'app.not_installed', 'key': 'ku', 'catches': self.catches()}
        else:
            err_act = {'id': 'AE', 'uses': 'acts.core.subflow', 'params': {'to': 1}, 'catches': self.catches()}
        acts = [self.plain_act() for _ in range(self.r.randint(0, 1))] + [err_act] + [self.plain_act() for _ in range(self.r.randint(0, 2))]
        inner = {'id': 'SE', 'acts': acts, 'catches': self.catches()}
        if self.r.random() < 0.5:
            outer = {'id': 'SO', 'catches': self.catches(), 'branches': [{'id': 'BE', 'if': 'true', 'steps': [inner] + [{'id': self.nid('s')} for _ in range(self.r.randint(0, 1))]}]}
            if self.r.random() < 0.5:
                outer['branches'].append({'id': 'BP', 'if': 'true', 'steps': [{'id': self.nid('s'), 'acts': [{'id': self.nid('a'), 'uses': IRQ, 'key': 'kp'}]}]})
                if self.r.random() < 0.5:
                    outer['branches'].reverse()
            mid = outer
        else:
            mid = inner
        return {'id': 'm1', 'steps': [{'id': 'S0', 'acts': [self.plain_act()]}, mid, {'id': 'SN', 'acts': [self.plain_act()]}]}


def match(catches, code):
    for c in catches:
        if c.get('on') is None or c.get('on') == code:
            return c
    return None


def reference(wf, code):
    """-> (end, expected final states of the key nodes, catch steps that ran, id of the catching node or None)"""
    out, ran = {}, set()

    def steps_run(steps):
        for st in steps:
            out[st['id']] = 'completed'
            for a in st.get('acts', []):
                out[a['id']] = 'completed'
    mid = wf['steps'][1]
    be = None
    if mid['id'] == 'SO':
        be = [b for b in mid['branches'] if b['id'] == 'BE'][0]
    inner = mid if mid['id'] == 'SE' else be['steps'][0]
    out['S0'] = 'completed'
    for a in wf['steps'][0]['acts']:
        out[a['id']] = 'completed'
    idx = [a['id'] for a in inner['acts']].index('AE')
    for a in inner['acts'][:idx]:
        out[a['id']] = 'completed'
    ae = inner['acts'][idx]

    def rest_after_inner_ok():
        out['SE'] = 'completed'
        if mid is not inner:
            for st in be['steps'][1:]:
                out[st['id']] = 'completed'
            out['BE'] = 'completed'
            out['SO'] = 'completed'          # the parallel branch's irq is answered as well
            for b in mid['branches']:
                if b['id'] == 'BP':
                    out['BP'] = 'completed'
                    steps_run(b['steps'])
        out['SN'] = 'completed'
        for a in wf['steps'][2]['acts']:
            out[a['id']] = 'completed'
        out['m1'] = 'completed'
        return 'completed'
    c = match(ae.get('catches', []), code)
    if c is not None:
        steps_run(c['steps'])
        ran.update(st['id'] for st in c['steps'])
        out['AE'] = 'completed'
        for a in inner['acts'][idx + 1:]:
            out[a['id']] = 'completed'
        return rest_after_inner_ok(), out, ran, 'AE'
    out['AE'] = 'error'
    c = match(inner.get('catches', []), code)
    if c is not None:
        steps_run(c['steps'])
        ran.update(st['id'] for st in c['steps'])
        return rest_after_inner_ok(), out, ran, 'SE'
    out['SE'] = 'error'
    if mid is not inner:
        out['BE'] = 'error'
        c = match(mid.get('catches', []), code)
        if c is not None:
            steps_run(c['steps'])
            ran.update(st['id'] for st in c['steps'])
            if len(mid['branches']) > 1:
                return 'depends-on-parallel-branch', out, ran, 'SO'
            out['SO'] = 'completed'
            out['SN'] = 'completed'
            for a in wf['steps'][2]['acts']:
                out[a['id']] = 'completed'
            out['m1'] = 'completed'
            return 'completed', out, ran, 'SO'
        out['SO'] = 'error'
    out['m1'] = 'error'
    return 'error', out, ran, None


def all_catch_steps(wf):
    from monitors import walk_nodes
    return {n['id'] for n, kind, where in walk_nodes(wf) if kind == 'step' and where == 'catch'}


def nested_case(rng):
    """an error inside the steps of a catch, on a task that declares its own catch: the catch-once bookkeeping of the
    outer (already used) catch must not count for the inner one"""
    outer_at = rng.choice(['act', 'step'])
    c1, c2 = rng.sample(CODES, 2)
    inner_at = rng.choice(['act', 'step', 'none'])
    inner_on = rng.choice([c2, c2, None, c1])          # matching code, catch-all, or a non-matching code
    inner_catch = {'steps': [{'id': 'C2', 'acts': [{'id': 'A2', 'uses': MSG, 'key': 'm2'}]}]}
    if inner_on:
        inner_catch['on'] = inner_on
    ac = {'id': 'AC', 'uses': IRQ, 'key': 'kc2'}
    cstep = {'id': 'C1', 'acts': [ac] + ([{'id': 'AC3', 'uses': MSG, 'key': 'm3'}] if rng.random() < 0.5 else [])}
    if inner_at == 'act':
        ac['catches'] = [inner_catch]
    elif inner_at == 'step':
        cstep['catches'] = [inner_catch]
    outer_catch = {'steps': [cstep]}
    if rng.random() < 0.7:
        outer_catch['on'] = c1
    ae = {'id': 'AE', 'uses': IRQ, 'key': 'ke'}
    se = {'id': 'SE', 'acts': [ae]}
    (ae if outer_at == 'act' else se)['catches'] = [outer_catch]
    wf = {'id': 'm1', 'steps': [{'id': 'S0', 'acts': [{'id': 'a0', 'uses': IRQ, 'key': 'k'}]}, se, {'id': 'SN', 'acts': [{'id': 'an', 'uses': IRQ, 'key': 'k'}]}]}
    caught = inner_at != 'none' and inner_on in (None, c2)
    exp = {'S0': 'completed', 'a0': 'completed', 'C1': 'completed' if caught else 'error'}
    if caught:
        exp.update({'AC': 'completed' if inner_at == 'act' else 'error', 'C2': 'completed', 'A2': 'completed', 'SE': 'completed', 'AE': 'completed' if outer_at == 'act' else 'error', 'SN': 'completed', 'an': 'completed', 'm1': 'completed'})
    else:
        exp.update({'AC': 'error', 'SE': 'error', 'AE': 'error', 'm1': 'error'})
    return wf, {'c1': c1, 'c2': c2, 'outer_at': outer_at, 'inner_at': inner_at, 'inner_on': inner_on, 'caught': caught, 'exp': exp}


class ErrorFamily:
    name = 'error'

    def gen_nested(self, rng, idx, opts):
        wf, n = nested_case(rng)
        rules = [{'match': {'key': 'ke'}, 'action': 'error', 'options': {'ecode': n['c1'], 'message': 'boom'}},
                 {'match': {'key': 'kc2'}, 'action': 'error', 'options': {'ecode': n['c2'], 'message': 'again'}},
                 {'match': {'uses': IRQ}, 'action': 'next', 'times': 1000}]
        rt = rng.choice([{'flavor': 'current'}, {'flavor': 'current', 'chaos': {'max_yields': 3, 'seed': rng.randrange(1, 1 << 40)}}, {'flavor': 'multi', 'workers': 2, 'chaos': {'max_yields': 3, 'seed': rng.randrange(1, 1 << 40)}}])
        sc = {'id': '', 'family': 'error', 'sched': rt['flavor'] + '-nested', 'seed': rng.randrange(1 << 30), 'runtime': rt, 'engine': {'store': opts.get('store', 'mem'), 'keep_processes': True}, 'models': [json.dumps(wf)],
              'responder': {'mode': 'quiescent', 'order': 'fifo', 'rules': rules}, 'ops': [{'op': 'start', 'mid': 'm1', 'vars': {'pid': 'p1'}}, {'op': 'run', 'snap': opts.get('snap', 'live')}, {'op': 'snapshot', 'level': opts.get('snap', 'live')}]}
        if opts.get('store', 'mem') == 'mem' and rng.random() < opts.get('evict', 0.3):
            sc['faults'] = {'evict_at': sorted(set(rng.randint(1, 5) for _ in range(rng.randint(1, 2))))}
            sc['sched'] += '+evict'
        return {'scenarios': [sc], 'meta': {'wf': wf, 'code': n['c1'], 'source': 'nested', 'nested': n}, 'digest': digest([wf, n['c1'], n['c2']]), 'nontrivial': True}

    def judge_nested(self, c, opts, obs):
        out = []
        h, sc, m = c['hist'][0], c['scenarios'][0], c['meta']
        n, sid = m['nested'], sc['id']
        tag = f"nested:{n['outer_at']}>{n['inner_at']}:{'caught' if n['caught'] else 'uncaught'}"
        obs[f'c06.runs:{tag}'] += 1
        got = {}
        for t in h.final_tasks().values():
            got.setdefault(t['nid'], t['state'])
        cnt = collections.Counter(e['nid'] for e in h.creates)
        if cnt['C1'] != 1:
            out.append(V('C06', 'wrong-catch-ran', f"outer:{cnt['C1']}:{tag}", f"outer catch step C1 ran {cnt['C1']} times", scenario=sid))
        if cnt['C2'] != (1 if n['caught'] else 0):
            out.append(V('C06', 'wrong-catch-ran', f"inner:{cnt['C2']}:{tag}", f"inner catch step C2 ran {cnt['C2']} times; the error {n['c2']} raised inside the outer catch's steps {'matches' if n['caught'] else 'does not match'} the inner catch (on {n['inner_on']!r} at {n['inner_at']})", scenario=sid))
        d = {k: (v, got.get(k)) for k, v in n['exp'].items() if got.get(k) != v}
        if d:
            out.append(V('C06', 'final-state', f"{tag}:{'|'.join(sorted({f'{e}->{g}' for e, g in d.values()}))[:60]}", f"states differ from the reference (expected, got) {dict(list(d.items())[:6])}", scenario=sid))
        cbs = [(e['what'], e['state'], (e.get('inputs') or {}).get('ecode')) for e in h.cbs if e['what'] != 'start']
        want = [('complete', 'completed', None)] if n['caught'] else [('error', 'error', n['c2'])]
        if cbs != want:
            out.append(V('C06', 'terminal-event', f"{tag}:{'+'.join(x[0] for x in cbs) or 'none'}", f"expected {want}, got {cbs}", scenario=sid))
        return out

    def gen_retry(self, rng, idx, opts):
        """retry pattern: the step of an act-level catch jumps back (`next:`) to the step of the failing act (or further);
        the re-entered step is a step of the main flow again: a second error there, with another code, is taken by THAT
        step's catch-all, whose steps run once, and the flow goes on"""
        to = rng.choice(['SE', 'SE', 'S0'])
        c1, c2 = rng.sample(CODES, 2)
        second = rng.choice(['caught-by-step', 'caught-by-step', 'uncaught', 'none'])
        se = {'id': 'SE', 'acts': [{'id': 'AE', 'uses': IRQ, 'key': 'ke', 'catches': [{'on': c1, 'steps': [{'id': 'C1', 'acts': [{'id': 'AC', 'uses': MSG, 'key': 'mc'}], 'next': to}]}]}]}
        if second != 'uncaught':
            se['catches'] = [{'steps': [{'id': 'CX', 'acts': [{'id': 'AX', 'uses': MSG, 'key': 'mx'}]}]}]
        wf = {'id': 'm1', 'steps': [{'id': 'S0', 'acts': [{'id': 'a0', 'uses': IRQ, 'key': 'k0'}]}, se, {'id': 'SN', 'acts': [{'id': 'an', 'uses': IRQ, 'key': 'k'}]}]}
        rules = [{'match': {'key': 'ke'}, 'action': 'error', 'options': {'ecode': c1, 'message': 'boom'}, 'times': 1}]
        if to == 'S0' and second != 'none' and rng.random() < 0.5:
            # the second error is raised on the act of the re-entered EARLIER step: only that step and the workflow enclose
            # it, the catch-all of the step that was left does not
            second = 'on-earlier-step'
            rules += [{'match': {'key': 'k0'}, 'action': 'next', 'times': 1}, {'match': {'key': 'k0'}, 'action': 'error', 'options': {'ecode': c2, 'message': 'again'}, 'times': 1}]
        elif second != 'none':
            rules.append({'match': {'key': 'ke'}, 'action': 'error', 'options': {'ecode': c2, 'message': 'again'}, 'times': 1})
        rules.append({'match': {'uses': IRQ}, 'action': 'next', 'times': 1000})
        rt = rng.choice([{'flavor': 'current'}, {'flavor': 'current', 'chaos': {'max_yields': 3, 'seed': rng.randrange(1, 1 << 40)}}, {'flavor': 'multi', 'workers': 2, 'chaos': {'max_yields': 3, 'seed': rng.randrange(1, 1 << 40)}}])
        sc = {'id': '', 'family': 'error', 'sched': rt['flavor'] + '-retry', 'seed': rng.randrange(1 << 30), 'runtime': rt, 'engine': {'store': opts.get('store', 'mem'), 'keep_processes': True}, 'models': [json.dumps(wf)],
              'responder': {'mode': 'quiescent', 'order': 'fifo', 'rules': rules}, 'ops': [{'op': 'start', 'mid': 'm1', 'vars': {'pid': 'p1'}}, {'op': 'run', 'snap': opts.get('snap', 'live')}, {'op': 'snapshot', 'level': opts.get('snap', 'live')}]}
        return {'scenarios': [sc], 'meta': {'wf': wf, 'code': c1, 'source': 'retry', 'retry': {'to': to, 'c1': c1, 'c2': c2, 'second': second}}, 'digest': digest([wf, c1, c2, second]), 'nontrivial': True}

    def judge_retry(self, c, opts, obs):
        out = []
        h, sc, m = c['hist'][0], c['scenarios'][0], c['meta']
        r, sid = m['retry'], sc['id']
        tag = f"retry-to-{r['to']}:{r['second']}"
        obs[f'c06.runs:{tag}'] += 1
        cnt = collections.Counter(e['nid'] for e in h.creates)
        if cnt['C1'] != 1:
            out.append(V('C06', 'wrong-catch-ran', f"act-catch:{cnt['C1']}:{tag}", f"the step of the act's catch for {r['c1']} ran {cnt['C1']} times", scenario=sid))
        want_cx = 1 if r['second'] == 'caught-by-step' else 0
        if cnt['CX'] != want_cx:
            out.append(V('C06', 'wrong-catch-ran', f"step-catch-all:{cnt['CX']}:{tag}", f"the step of the re-entered step's catch-all ran {cnt['CX']} times, expected {want_cx} (second error {r['c2']!r}: {r['second']})", scenario=sid))
        cbs = [(e['what'], e['state'], (e.get('inputs') or {}).get('ecode')) for e in h.cbs if e['what'] != 'start']
        want = [('error', 'error', r['c2'])] if r['second'] in ('uncaught', 'on-earlier-step') else [('complete', 'completed', None)]
        if cbs != want:
            out.append(V('C06', 'terminal-event', f"{tag}:{'+'.join(x[0] for x in cbs) or 'none'}", f"expected {want}, got {cbs}", scenario=sid))
        return out

    def gen(self, rng, idx, opts):
        if rng.random() < opts.get('nested', 0.15):
            return self.gen_nested(rng, idx, opts)
        if rng.random() < opts.get('retry', 0.08):
            return self.gen_retry(rng, idx, opts)
        source = rng.choice(['action', 'action', 'action', 'script', 'params', 'unknown'])
        g = G(rng)
        wf = g.wf(source)
        code = rng.choice(CODES) if source == 'action' else None
        rules = [{'match': {'key': 'ke'}, 'action': 'error', 'options': {'ecode': code, 'message': 'boom'}}, {'match': {'uses': IRQ}, 'action': 'next', 'times': 1000}]
        rt = rng.choice([{'flavor': 'current'}, {'flavor': 'current', 'chaos': {'max_yields': 3, 'seed': rng.randrange(1, 1 << 40)}}, {'flavor': 'multi', 'workers': 2, 'chaos': {'max_yields': 3, 'seed': rng.randrange(1, 1 << 40)}}])
        order = rng.choice(['fifo', 'lifo', 'seeded'])
        if opts.get('second_error') and source == 'action':
            # a second error with another code raised on an act inside the catch steps (C02: only one revival)
            other = rng.choice([x for x in CODES if x != code])
            rules.insert(1, {'match': {'key': 'kc'}, 'action': 'error', 'options': {'ecode': other, 'message': 'again'}, 'times': 1})
        idless = rng.random() < opts.get('idless', 0.2)
        wf_engine = wf
        if idless:
            # the steps of the catches carry no ids (the engine names them); their acts keep theirs, which is what the
            # judge follows
            wf_engine = json.loads(json.dumps(wf))
            from monitors import walk_nodes
            for n_, kind_, where_ in walk_nodes(wf_engine):
                if kind_ == 'step' and where_ == 'catch':
                    n_.pop('id', None)
        sc = {'id': '', 'family': 'error', 'sched': rt['flavor'] + '-' + order + ('-idless' if idless else ''), 'seed': rng.randrange(1 << 30), 'runtime': rt, 'engine': {'store': opts.get('store', 'mem'), 'keep_processes': True}, 'models': [json.dumps(wf_engine)],
              'responder': {'mode': 'quiescent', 'order': order, 'rules': rules}, 'ops': [{'op': 'start', 'mid': 'm1', 'vars': {'pid': 'p1'}}, {'op': 'run', 'snap': opts.get('snap', 'live')}, {'op': 'snapshot', 'level': opts.get('snap', 'live')}]}
        if idless:
            sc['idless_catch'] = True
        if opts.get('store') == 'sqlite' and rng.random() < opts.get('restart', 0.0):
            sc['faults'] = {'restart_at': sorted(set(rng.randint(1, 5) for _ in range(rng.randint(1, 2))))}
            sc['sched'] += '+restart'
            sc['watchdog_ms'] = 60000
        elif rng.random() < opts.get('evict', 0.3):
            sc['faults'] = {'evict_at': sorted(set(rng.randint(1, 6) for _ in range(rng.randint(1, 2))))}
            sc['sched'] += '+evict'
        return {'scenarios': [sc], 'meta': {'wf': wf, 'code': code, 'source': source, 'idless': idless}, 'digest': digest([wf, code, idless]), 'nontrivial': True}

    def judge(self, c, opts, obs):
        out = []
        h, sc, m = c['hist'][0], c['scenarios'][0], c['meta']
        if m.get('nested'):
            return self.judge_nested(c, opts, obs)
        if m.get('retry'):
            return self.judge_retry(c, opts, obs)
        wf, code, source = m['wf'], m['code'], m['source']
        sid = sc['id']
        if source != 'action':
            # the code of an execution failure is whatever the engine assigns: read it from the errored act
            e = [t for t in h.states if t['nid'] == 'AE' and t['new'] == 'error']
            errs = [d for d in h.delivers if d['nid'] == 'AE' and d['state'] == 'error']
            cbe = [x for x in h.cbs if x['what'] == 'error']
            code = None
            for src in errs + cbe:
                if (src.get('inputs') or {}).get('ecode') is not None:
                    code = src['inputs']['ecode']
                    break
            if code is None:
                # the error was taken by a catch on the act itself before any message: only a catch-all / empty code can have matched
                code = ''
        end, exp, ran, catcher = reference(wf, code)
        obs[f'c06.runs:{source}'] += 1
        obs[f'c06.expected-end:{end}'] += 1
        obs[f"c06.catcher:{catcher or 'none'}"] += 1
        final = h.final_tasks()
        got = {}
        for t in final.values():
            got.setdefault(t['nid'], t['state'])
        allc = all_catch_steps(wf)
        cnt = collections.Counter(e['nid'] for e in h.creates)
        tag = f'{source}:{catcher or "uncaught"}'
        if m.get('idless'):
            # the catch steps are anonymous: follow their acts
            from monitors import walk_nodes
            acts_of = {}
            for n_, kind_, where_ in walk_nodes(wf):
                if kind_ == 'step' and where_ == 'catch':
                    acts_of[n_['id']] = [a['id'] for a in n_.get('acts') or []]
            want_acts = sorted(a for s_ in ran for a in acts_of.get(s_, []))
            got_acts = sorted(a for s_ in allc for a in acts_of.get(s_, []) for _ in range(cnt[a]))
            obs['c06.idless-catch-programs'] += 1
            if want_acts != got_acts:
                out.append(V('C06', 'wrong-catch-ran', f"idless:{'missing' if len(got_acts) < len(want_acts) else 'extra'}:{tag}", f"acts of the (id-less) catch steps that ran {got_acts}, expected {want_acts} for code {code!r} (catcher {catcher})", scenario=sid))
            for s_ in allc:
                exp.pop(s_, None)
            allc = set()
            ran = set()
        got_ran = {x for x in allc if cnt[x] > 0}
        dup = sorted(x for x in allc if cnt[x] > 1)
        if dup:
            out.append(V('C06', 'catch-steps-ran-twice', tag, f"catch steps {dup} were instantiated more than once (code {code})", scenario=sid))
        if got_ran != ran:
            extra, miss = sorted(got_ran - ran), sorted(ran - got_ran)
            out.append(V('C06', 'wrong-catch-ran', f"{'extra' if extra else ''}{'missing' if miss else ''}:{tag}", f"catch steps that ran {sorted(got_ran)} expected {sorted(ran)} for code {code!r} (catcher {catcher})", scenario=sid))
        cbs = [(e['what'], e['state'], (e.get('inputs') or {}).get('ecode'), (e.get('inputs') or {}).get('message')) for e in h.cbs if e['what'] != 'start']
        if end == 'depends-on-parallel-branch':
            return out
        d = {k: (exp[k], got.get(k)) for k in exp if exp[k] != got.get(k)}
        if d:
            out.append(V('C06', 'final-state', f"{tag}:{'|'.join(sorted({f'{e}->{g}' for e, g in d.values()}))[:60]}", f"states differ from the reference (expected, got) {dict(list(d.items())[:6])} for code {code!r}", scenario=sid))
        if end == 'completed':
            if [x[:2] for x in cbs] != [('complete', 'completed')]:
                out.append(V('C06', 'terminal-event', f"{tag}:{'+'.join(x[0] for x in cbs) or 'none'}", f"caught error: expected one complete event, got {cbs}", scenario=sid))
        else:
            want_msg = 'boom' if source == 'action' else None
            ok = len(cbs) == 1 and cbs[0][0] == 'error' and cbs[0][1] == 'error' and cbs[0][2] == code and (want_msg is None or cbs[0][3] == want_msg)
            if not ok:
                out.append(V('C06', 'terminal-event', f"{tag}:{'+'.join(x[0] for x in cbs) or 'none'}", f"uncaught error {code!r}: expected exactly one error event carrying it, got {cbs}", scenario=sid))
            # child before parent, original code and message on every errored task
            seqs = {}
            for e in h.states:
                if e['new'] == 'error' and e['via'] == 'set':
                    seqs.setdefault(e['nid'], e['seq'])
            chain = [n for n in ('AE', 'SE', 'BE', 'SO', 'm1') if n in exp and exp[n] == 'error']
            for x, y in zip(chain, chain[1:]):
                if x in seqs and y in seqs and not seqs[x] < seqs[y]:
                    out.append(V('C06', 'propagation-order', tag, f"{y} was marked error before {x}", scenario=sid))
            for t in final.values():
                if t['state'] == 'error' and t['nid'] in chain:
                    e = t.get('err') or {}
                    if e.get('ecode') != code or (want_msg is not None and e.get('message') != want_msg):
                        out.append(V('C06', 'error-code-changed', f"{tag}:{t['kind']}", f"{t['kind']} {t['nid']} carries {e} instead of ({code!r}, {want_msg!r})", scenario=sid))
        return out
