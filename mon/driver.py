#!/usr/bin/env python3
"""Driver: `driver.py <ID> --tier quick|thorough [--seed N] [--replay path] [--budget-scale x]`.

build executor -> generate cases per family (16 workers) -> run scenarios -> monitors -> aggregate ->
match known findings -> confirm unknown violations -> evidence -> exit code.
exit 0 held (KNOWN-FINDING lines for listed findings), 1 violation, 2 build failure, 3 inconclusive."""
import argparse
import collections
import json
import multiprocessing
import os
import random
import re
import shutil
import sys
import time
import traceback

HERE = os.path.dirname(os.path.abspath(__file__))
sys.path.insert(0, HERE)
ROOT = os.path.dirname(HERE)

import rig  # noqa: E402
from common import Hist, digest  # noqa: E402

NWORK = int(os.environ.get('VERIF_WORKERS', '16'))


def load_known():
    p = os.path.join(ROOT, 'known_findings.json')
    if not os.path.exists(p):
        return []
    return json.load(open(p))


def match_known(known, prop, sig):
    for k in known:
        if k.get('status') != 'open' or k.get('property') != prop:
            continue
        if re.fullmatch(k['signature'], sig):
            return k
    return None


def case_seed(seed, prop, part, idx):
    return int(digest([seed, prop, part, idx]), 16)


def run_cases(part, cases, workdir, tag):
    """run every scenario of every case (plus follow-up rounds); attach Hist objects"""
    fam = part['family']
    scs = []
    for c in cases:
        for sc in c['scenarios']:
            scs.append(sc)
    raws = rig.run_batch(scs, workdir, tag + '-r1')
    i = 0
    for c in cases:
        c['hist'] = [Hist(r) for r in raws[i:i + len(c['scenarios'])]]
        i += len(c['scenarios'])
    if hasattr(fam, 'followup'):
        for rnd in range(2, 5):
            extra = []
            owners = []
            for c in cases:
                more = fam.followup(c, part.get('opts') or {}, rnd) or []
                if more:
                    owners.append((c, len(more)))
                    extra.extend(more)
            if not extra:
                break
            raws = rig.run_batch(extra, workdir, tag + f'-r{rnd}')
            i = 0
            for c, n in owners:
                c['scenarios'].extend(extra[i:i + n])
                c['hist'].extend(Hist(r) for r in raws[i:i + n])
                i += n


def judge_case(part, c, obs):
    """-> (violations, conclusive: bool)"""
    fam = part['family']
    vs = []
    for h in c['hist']:
        # the engine's start-up tick can run before the store is initialised; that panic is isolated by tokio,
        # happens before the scenario starts and is outside the given properties: counted, not inconclusive
        if h.panics and all('fail to get collection' in p for p in h.panics):
            obs['benign-startup-tick-panics'] += len(h.panics)
            h.panics = []
    # a panic raised inside the engine's own code while it runs a scenario is behaviour of the engine, not a failure of
    # the harness: in the scheduler loop it ends all progress for every process.  C01 (progress) reports it; for the
    # other properties the run stays inconclusive
    if 'C01' in (part.get('props') or []):
        eng = [p for h in c['hist'] for p in h.panics if '/acts/src/' in p or '/store/sqlite/src/' in p]
        if eng:
            m_ = re.search(r'((?:acts|store/sqlite)/src/[\w/]+\.rs)', eng[0])
            msg = eng[0].split('\n')[-1][:100]
            short = re.sub(r'[0-9A-Za-z_-]{8,}|[0-9]+', '#', msg)[:60]
            v = {'prop': 'C01', 'rule': 'engine-panic', 'sig': f"C01/engine-panic:{m_.group(1) if m_ else 'unknown'}:{short}",
                 'detail': f"the engine panicked while running the scenario: {eng[0][:220]!r}; a panic in the scheduler loop ends the progress of every process", 'scenario': c['scenarios'][0]['id']}
            return [v], True
    bad = [h for h in c['hist'] if not h.conclusive()]
    if bad:
        for h in bad:
            obs['inconclusive:' + (h.status if h.status != 'ok' else 'panic')] += 1
            if h.panics:
                obs['panic:' + h.panics[0][:80]] += 1
        return [], False
    for h, sc in zip(c['hist'], c['scenarios']):
        obs['scenarios'] += 1
        obs['events'] += len(h.R)
        for t, l in h.by.items():
            obs['records:' + t] += len(l)
        if h.late():
            obs['late-activity-scenarios'] += 1
        for m in part.get('monitors') or []:
            if sc.get('no_monitors') and m.__name__ in sc['no_monitors']:
                continue
            for v in m(h, sc, obs):
                v['scenario'] = sc['id']
                vs.append(v)
    if part.get('judge', True) and hasattr(fam, 'judge'):
        for v in fam.judge(c, part.get('opts') or {}, obs):
            vs.append(v)
    want = part.get('props')
    if want:
        vs = [v for v in vs if v['prop'] in want]
    return vs, True


def work(args):
    prop, pi, seed, lo, hi, workdir, tier = args
    import props
    try:
        part = props.PROPS[prop]['parts'][pi]
        fam = part['family']
        obs = collections.Counter()
        cases = []
        for idx in range(lo, hi):
            rng = random.Random(case_seed(seed, prop, pi, idx))
            c = fam.gen(rng, idx, dict(part.get('opts') or {}, tier=tier, seed=seed))
            c.setdefault('meta', {})
            c['idx'] = idx
            if (part.get('opts') or {}).get('app_packages'):
                # some of the message acts use a package the application has registered (run_as: msg) instead of the built-in one
                for sc in c['scenarios']:
                    ms = []
                    for m_ in sc.get('models') or []:
                        parts_ = m_.split('"uses": "acts.core.msg"')
                        m_ = parts_[0] + ''.join(('"uses": "app.notify"' if rng.random() < 0.6 else '"uses": "acts.core.msg"') + x for x in parts_[1:])
                        ms.append(m_)
                    sc['models'] = ms
                    sc['packages'] = [{'name': 'app.notify', 'run_as': 'msg'}]
            for j, sc in enumerate(c['scenarios']):
                sc['id'] = f"{prop}-{part['name']}-{seed}-{idx}-{j}"
            cases.append(c)
        run_cases(part, cases, workdir, f'{prop}-{pi}-{lo}')
        res = {'evaluations': 0, 'inconclusive': 0, 'violations': [], 'obs': obs, 'digests': set(), 'samples': [], 'sigs': set(), 'part': part['name']}
        witnessed = set()
        for c in cases:
            vs, ok = judge_case(part, c, obs)
            if not ok:
                res['inconclusive'] += 1
                continue
            res['evaluations'] += 1
            if c.get('nontrivial', True):
                res['digests'].add(c.get('digest') or digest(c['scenarios'][0].get('models')) + digest(c['scenarios'][0].get('ops')))
            for h in c['hist']:
                res['sigs'].add(h.interleaving_signature())
            if len(res['samples']) < 1:
                res['samples'].append(sample_of(c))
            seen = set()
            for v in vs:
                if v['sig'] in seen:
                    continue
                seen.add(v['sig'])
                # the witness carries the recorded history of the run that violated (re-runs of a racy case may not)
                res['violations'].append({'v': dict(v), 'case': {'scenarios': c['scenarios'][:], 'meta': c.get('meta'), 'idx': c['idx']},
                                          'records': [trim_records(h.R) for h in c['hist']] if v['sig'] not in witnessed else None})
                witnessed.add(v['sig'])
        # bound what travels back: keep at most 3 witnesses per signature
        per = collections.Counter()
        keep = []
        counts = collections.Counter()
        for x in res['violations']:
            counts[x['v']['sig']] += 1
            if per[x['v']['sig']] < 3:
                per[x['v']['sig']] += 1
                keep.append(x)
        res['violations'] = keep
        res['vcounts'] = counts
        return res
    except Exception:
        return {'error': traceback.format_exc(), 'part': str(pi)}


def trim_records(R, limit=1500):
    out = []
    for e in R[:limit]:
        e = dict(e)
        if e.get('t') == 'op' and e.get('op') in ('snapshot', 'run') and isinstance(e.get('res'), dict):
            e['res'] = {k: v for k, v in e['res'].items() if k not in ('live', 'tasks', 'procs', 'messages', 'events', 'models', 'snap')}
        if e.get('t') == 'qp':
            e.pop('snap', None)
        out.append(e)
    return out


def sample_of(c):
    sc = c['scenarios'][0]
    s = {'scenario_id': sc.get('id'), 'sched': sc.get('sched'), 'runtime': sc.get('runtime'), 'engine': sc.get('engine'), 'ops': sc.get('ops')[:12] if sc.get('ops') else None,
         'models': [m if len(m) < 1500 else m[:1500] + '…' for m in (sc.get('models') or [])][:2], 'n_scenarios': len(c['scenarios'])}
    if c.get('hist'):
        s['records_by_type'] = {t: len(l) for t, l in c['hist'][0].by.items()}
    if c.get('meta') and isinstance(c['meta'], dict):
        s['meta'] = {k: v for k, v in c['meta'].items() if k in ('sub', 'a', 'b', 'expected', 'note', 'kind')}
    return s


def confirm(prop, part, witness, workdir, tries):
    """re-run a witness case with a long real-time grace at every quiescence confirmation.
    -> (reproduced, runs, late_seen)"""
    fam = part['family']
    rep = late = runs = 0
    sig = witness['v']['sig']
    for t in range(tries):
        c = {'scenarios': json.loads(json.dumps(witness['case']['scenarios'])), 'meta': witness['case'].get('meta'), 'idx': witness['case'].get('idx')}
        n0 = c.get('meta', {}).get('n_first_round') if isinstance(c.get('meta'), dict) else None
        if n0:
            c['scenarios'] = c['scenarios'][:n0]
        for sc in c['scenarios']:
            sc['confirm_us'] = 300000
        run_cases(part, [c], workdir, f'confirm-{t}')
        obs = collections.Counter()
        vs, ok = judge_case(part, c, obs)
        runs += 1
        if not ok:
            continue
        if any(h.late() for h in c['hist']):
            late += 1
        if any(v['sig'] == sig for v in vs):
            rep += 1
            if rep >= 2:
                break
    return rep, runs, late


def confirm_job(args):
    prop, pi, w, workdir, tries = args
    import props
    if tries == 0 or pi is None:
        return 0, 0, 0
    try:
        return confirm(prop, props.PROPS[prop]['parts'][pi], w, workdir, tries)
    except Exception:
        return 0, 0, 0


def main():
    ap = argparse.ArgumentParser()
    ap.add_argument('prop')
    ap.add_argument('--tier', default=os.environ.get('VERIF_TIER', 'quick'))
    ap.add_argument('--seed', type=int, default=int(os.environ.get('VERIF_SEED', '1')))
    ap.add_argument('--replay')
    ap.add_argument('--scale', type=float, default=float(os.environ.get('VERIF_BUDGET_SCALE', '1')))
    ap.add_argument('--no-build', action='store_true')
    ap.add_argument('--keep', action='store_true')
    a = ap.parse_args()
    import props
    prop = a.prop
    if prop not in props.PROPS:
        print(f'unknown property {prop}')
        return 2
    spec = props.PROPS[prop]
    t0 = time.time()
    if not a.no_build:
        ok, secs, log = rig.build()
        if not ok:
            print(f'BUILD-FAILED property={prop} (executor does not build against /repo working tree)')
            print(log[-1500:])
            return 2
    workdir = os.path.join(ROOT, '.work', f'{prop}-{a.tier}-{os.getpid()}')
    os.makedirs(workdir, exist_ok=True)
    known = load_known()
    try:
        if a.replay:
            return replay(prop, spec, a, workdir, known)
        return check(prop, spec, a, workdir, known, t0)
    finally:
        if not a.keep:
            shutil.rmtree(workdir, ignore_errors=True)


def check(prop, spec, a, workdir, known, t0):
    tasks = []
    planned = {}
    for pi, part in enumerate(spec['parts']):
        n = part['quick'] if a.tier == 'quick' else part['thorough']
        n = max(1, int(n * a.scale))
        planned[part['name']] = n
        per = max(1, min(part.get('chunk', 60), (n + NWORK - 1) // NWORK))
        for lo in range(0, n, per):
            tasks.append((prop, pi, a.seed, lo, min(n, lo + per), os.path.join(workdir, f'w{pi}-{lo}'), a.tier))
    random.Random(a.seed).shuffle(tasks)
    with multiprocessing.Pool(min(NWORK, len(tasks))) as pool:
        results = pool.map(work, tasks, chunksize=1)
    errs = [r for r in results if 'error' in r]
    if errs:
        print(f'HARNESS-ERROR property={prop}')
        print(errs[0]['error'])
        return 2
    obs = collections.Counter()
    evaluations = inconclusive = 0
    digests = set()
    isigs = set()
    samples = []
    by_sig = collections.OrderedDict()
    vcounts = collections.Counter()
    per_part = collections.Counter()
    for r in results:
        obs.update(r['obs'])
        evaluations += r['evaluations']
        per_part[r['part']] += r['evaluations']
        inconclusive += r['inconclusive']
        digests |= r['digests']
        isigs |= r['sigs']
        if len(samples) < 4:
            samples.extend(r['samples'])
        vcounts.update(r['vcounts'])
        for x in r['violations']:
            by_sig.setdefault(x['v']['sig'], []).append(x)
    known_hit = collections.OrderedDict()
    unknown = collections.OrderedDict()
    for sig, xs in by_sig.items():
        p = xs[0]['v']['prop']
        k = match_known(known, p, sig)
        if k:
            known_hit.setdefault(k['signature'], (k, []))[1].append((sig, vcounts[sig], xs[0]))
        else:
            unknown[sig] = xs
    # confirm unknown violations (verdict discipline: quiescence must survive a real-time grace)
    violations = []
    unconfirmed = []
    jobs = []
    for n, (sig, xs) in enumerate(unknown.items()):
        w = xs[0]
        pi = None
        for i_, p_ in enumerate(spec['parts']):
            if w['case']['scenarios'][0]['id'].startswith(f"{prop}-{p_['name']}-"):
                pi = i_
        multi = any((sc.get('runtime') or {}).get('flavor') == 'multi' or any(o.get('op') in ('race', 'twins', 'starts') for o in sc.get('ops') or []) for sc in w['case']['scenarios'])
        # bounded effort: the first 48 signatures are re-run, the rest are reported from the first observation alone
        tries = (6 if multi else 2) if n < 48 else 0
        jobs.append((prop, pi, w, os.path.join(workdir, f'confirm{n}'), tries))
    if jobs:
        with multiprocessing.Pool(min(NWORK, len(jobs))) as pool:
            conf = pool.map(confirm_job, jobs, chunksize=1)
    else:
        conf = []
    for (sig, xs), (rep, runs, late) in zip(unknown.items(), conf):
        w = xs[0]
        info = {'sig': sig, 'count': vcounts[sig], 'detail': w['v']['detail'], 'reproduced': f'{rep}/{runs}', 'late_activity_runs': late, 'witness': w}
        if late and (rep == 0 or late >= runs):
            unconfirmed.append(info)
        else:
            violations.append(info)
    os.makedirs(os.path.join(ROOT, 'replays', prop), exist_ok=True)
    lines = []
    for k, items in known_hit.values():
        n = sum(c for _, c, _ in items)
        lines.append(f"KNOWN-FINDING: property={prop} {k['what']} [signature {k['signature']}; seen {n}x this run]")
    # every listed open finding of this property is named, also when this run's sample did not hit it
    for k in known:
        if k.get('status') == 'open' and k.get('property') == prop and k['signature'] not in known_hit:
            lines.append(f"KNOWN-FINDING: property={prop} {k['what']} [signature {k['signature']}; not observed in this run]")
    for v in violations:
        path = os.path.join(ROOT, 'replays', prop, digest(v['sig']) + '.json')
        with open(path, 'w') as f:
            json.dump({'property': prop, 'sig': v['sig'], 'detail': v['detail'], 'count': v['count'], 'reproduced': v['reproduced'], 'case': v['witness']['case'], 'violation': v['witness']['v'],
                       'witness_records': v['witness'].get('records')}, f, indent=1)
        lines.append(f"VIOLATION property={prop} replay={path}")
        lines.append(f"  signature: {v['sig']}  (seen {v['count']}x, confirmation re-runs reproduced {v['reproduced']})")
        lines.append(f"  detail: {v['detail']}")
    for v in unconfirmed:
        lines.append(f"INCONCLUSIVE-WITNESS property={prop} signature={v['sig']} (engine activity after the quiescence test in {v['late_activity_runs']} confirmation runs; not reported as a violation)")
    wall = time.time() - t0
    rule = spec.get('rule', 'distinct case digests (model + inputs + op list) among conclusively evaluated cases that the family marks non-trivial')
    ev = {
        'property_id': prop, 'tier': a.tier, 'seed': a.seed, 'level': spec.get('level', 'exploration'),
        'coverage': {
            'evaluations': evaluations, 'distinct_nontrivial': len(digests), 'rule': rule, 'samples': samples[:4] or [{'note': 'no conclusive case'}],
            'scenarios_executed': obs['scenarios'], 'events_observed': obs['events'], 'distinct_interleaving_signatures': len(isigs),
            'inconclusive_cases': inconclusive, 'per_part_evaluations': dict(per_part), 'planned': planned,
            'records_by_type': {k[8:]: v for k, v in obs.items() if k.startswith('records:')},
            'observed': {k: v for k, v in sorted(obs.items()) if not k.startswith('records:') and k not in ('events', 'scenarios')},
            'known_findings_hit': [{'signature': k['signature'], 'what': k['what'], 'matched': [(s, c) for s, c, _ in items][:12]} for k, items in known_hit.values()],
            'new_violation_signatures': [v['sig'] for v in violations],
            'unconfirmed_witnesses': [v['sig'] for v in unconfirmed],
        },
        'assumptions': spec.get('assumptions', []) + ['hook trace and in-flight counter (feature verif) are faithful; quiescence is re-confirmed after a real-time grace before a violation is reported'],
        'wall_s': round(wall, 1), 'violations': len(violations),
    }
    if hasattr(spec.get('extra_evidence'), '__call__'):
        ev['coverage'].update(spec['extra_evidence'](obs))
    os.makedirs(os.path.join(ROOT, 'evidence'), exist_ok=True)
    with open(os.path.join(ROOT, 'evidence', f'{prop}.json'), 'w') as f:
        json.dump(ev, f, indent=1, default=str)
    print(f"property={prop} tier={a.tier} seed={a.seed} evaluations={evaluations} distinct_nontrivial={len(digests)} scenarios={obs['scenarios']} events={obs['events']} "
          f"interleavings={len(isigs)} inconclusive={inconclusive} known={len(known_hit)} violations={len(violations)} wall={wall:.0f}s")
    for l in lines:
        print(l)
    if violations:
        return 1
    if evaluations == 0:
        print(f'INCONCLUSIVE property={prop} (no conclusive evaluation)')
        return 3
    if inconclusive > max(5, evaluations // 2):
        print(f'INCONCLUSIVE property={prop} ({inconclusive} inconclusive vs {evaluations} conclusive cases)')
        return 3
    return 0


def replay(prop, spec, a, workdir, known):
    w = json.load(open(a.replay))
    part = None
    for p_ in spec['parts']:
        if w['case']['scenarios'][0]['id'].startswith(f"{prop}-{p_['name']}-"):
            part = p_
    if part is None:
        print('replay: cannot find the part this witness belongs to')
        return 2
    rep, runs, late = confirm(prop, part, {'v': {'sig': w['sig']}, 'case': w['case']}, workdir, 20)
    print(f"replay property={prop} signature={w['sig']} reproduced={rep}/{runs} late_activity_runs={late}")
    if rep:
        print(f"VIOLATION property={prop} replay={a.replay}")
        return 1
    return 0


if __name__ == '__main__':
    sys.exit(main())
