#!/usr/bin/env python3
"""debug helper: run the scenarios of a replay/witness file (or a scenario json) and print the merged trace"""
import json, sys, os
sys.path.insert(0, os.path.dirname(os.path.abspath(__file__)))
import rig
from common import Hist
w = json.load(open(sys.argv[1]))
scs = w['case']['scenarios'] if 'case' in w else (w if isinstance(w, list) else [w])
which = int(sys.argv[2]) if len(sys.argv) > 2 else 0
types = set(sys.argv[3].split(',')) if len(sys.argv) > 3 else {'state', 'create', 'action', 'cb', 'fault', 'late', 'op', 'qp'}
raws = rig.run_batch([scs[which]], '/verif/.work/dbg', 'dbg')
h = Hist(raws[0])
print('status', h.status, 'panics', h.panics)
for e in h.R:
    if e['t'] not in types: continue
    if e['t'] == 'state': print(e['seq'], 'STATE ', e['kind'], e['nid'], e['tid'], e['old'], '->', e['new'], e['via'])
    elif e['t'] == 'create': print(e['seq'], 'CREATE', e['kind'], e['nid'], e['tid'], 'prev', e['prev'], 'lvl', e['level'])
    elif e['t'] == 'action': print(e['seq'], 'ACTION', e['action'], e['tid'], 'call', e['call'], 'ok' if e['ok'] else 'ERR ' + str(e['err'])[:70], e['src'], json.dumps(e['options'])[:60])
    elif e['t'] == 'cb': print(e['seq'], 'CB    ', e['what'], e['pid'], e['state'])
    elif e['t'] == 'emit': print(e['seq'], 'EMIT  ', e['what'], e['tid'], e['state'], e['id'][:6])
    elif e['t'] == 'deliver': print(e['seq'], 'DELIV ', e['chan'], e['type'], e['nid'], e['key'], e['state'], 'retry', e['retry'], e['id'][:6])
    elif e['t'] == 'exec': print(e['seq'], 'EXEC  ', e['tid'], e['phase'])
    elif e['t'] == 'op': print(e['seq'], 'OP    ', e['op'], json.dumps(e['res'])[:150] if e['op'] not in ('snapshot',) else '')
    elif e['t'] == 'qp': print(e['seq'], 'QP    ', e['n'])
    else: print(e['seq'], e['t'].upper(), json.dumps({k: v for k, v in e.items() if k not in ('seq', 't')})[:160])
