"""Cross-cutting monitors over one History: C01 (progress), C02 (lifecycle), C03 (hierarchical completion,
terminal events), C08 (message stream), C11 (store image).  Each returns a list of V (violation candidates)
and adds what it observed to `obs` (a Counter)."""
import collections
import json

from common import CREATED, IRQ, MSG, NONERR_END, OPEN, TERM, TERMINAL_ACTIONS, V, rank


def _causes(h):
    """client actions as intervals, to attribute a state write to the action in progress"""
    return [(a['call'], a['seq'], a) for a in h.actions]


def cause_of(h, seq, tid=None):
    """name of the client action that was executing when record `seq` was written ('engine' if none).
    Actions of one process run one after another (process lock): among the actions whose call/return interval
    contains seq, the one that returns first is the one that was running"""
    a = closing_action(h, seq)
    return a['action'] if a else 'engine'


def closing_action(h, seq):
    c = [a for a in h.actions if a['call'] < seq < a['seq']]
    # the record at seq names the OS thread that wrote it; a client call is synchronous on its thread, so the write
    # belongs to the call on that very thread (or to the engine when there is none)
    byseq = getattr(h, '_byseq', None)
    if byseq is None:
        byseq = h._byseq = {e['seq']: e for e in h.R if e.get('t') in ('state', 'exec') and 'thread' in e}
    th = (byseq.get(seq) or {}).get('thread')
    if th is not None and all('thread' in a for a in c):
        c = [a for a in c if a['thread'] == th]
    # a refused action changes nothing (that is C05's business): prefer the accepted ones; records are pushed
    # after the call returns, so "returns first" is decided among them only
    ok = [a for a in c if a['ok']] or c
    return min(ok, key=lambda a: a['seq']) if ok else None


def walk_nodes(wf):
    """yield (node dict, kind, where) for every node of a model, where in {'normal','catch','timeout'}"""
    def steps(lst, where):
        for st in lst or []:
            yield st, 'step', where
            for b in st.get('branches') or []:
                yield b, 'branch', where
                yield from steps(b.get('steps'), where)
            for a in st.get('acts') or []:
                yield a, 'act', where
                for c in a.get('catches') or []:
                    yield from steps(c.get('steps'), 'catch')
                for t in a.get('timeout') or []:
                    yield from steps(t.get('steps'), 'timeout')
            for c in st.get('catches') or []:
                yield from steps(c.get('steps'), 'catch')
            for t in st.get('timeout') or []:
                yield from steps(t.get('steps'), 'timeout')
    yield wf, 'workflow', 'normal'
    yield from steps(wf.get('steps'), 'normal')


def model_facts(sc):
    """facts about the scenario's models the monitors need: nodes with catches, timeout/catch sub-steps, backward next"""
    f = {'catch_nids': set(), 'sub_nids': {}, 'has_jump': False, 'timeout_nids': set(), 'nodes': {}}
    for m in sc.get('models') or []:
        try:
            wf = json.loads(m) if isinstance(m, str) else m
        except Exception:
            continue
        for n, kind, where in walk_nodes(wf):
            nid = n.get('id')
            if not nid:
                continue
            f['nodes'][nid] = (kind, n)
            if n.get('catches'):
                f['catch_nids'].add(nid)
            if n.get('timeout'):
                f['timeout_nids'].add(nid)
            if where != 'normal':
                f['sub_nids'][nid] = where
            if kind == 'step' and n.get('next'):
                f['has_jump'] = True
    return f


# --------------------------------------------------------------------------- C02

def mon_c02(h, sc, obs):
    out = []
    facts = model_facts(sc)
    last = {}
    loaded = {}          # tid -> state a reconstruction from the store gave it (judged only if that instance is used)
    revived = collections.Counter()
    for e in h.states:
        k = (e['pid'], e['tid'])
        old = last.get(k, 'none')
        new = e['new']
        obs['c02.writes'] += 1
        via = 'set'
        if e['via'] == 'load':
            obs['c02.loads'] += 1
            # the engine also rebuilds processes from the store that it then throws away (restore() of processes that
            # are cached anyway), and the rows it read can be a moment older than the live task: a reconstruction is
            # judged when (and only when) the rebuilt instance is written to afterwards
            if k not in last:
                last[k] = new
            elif new != old:
                loaded[k] = new
            continue
        if k in loaded:
            ld = loaded.pop(k)
            if e['old'] == ld and ld != old:
                # the reloaded instance is live: the reload itself was a transition old -> ld
                obs['c02.edge:%s:%s->%s' % (e['kind'], old, ld)] += 1
                if old in TERM or rank(ld) < rank(old):
                    out.append(V('C02', 'terminal-rewritten' if old in TERM else 'backwards', f"{e['kind']}:{old}->{ld}:by-reload:plain", f"{e['kind']} {e['nid']} ({e['tid']}): {old} -> {ld} by a reload from the store that was then used", seq=e['seq']))
                old = ld
        if e['old'] != old and k in last:
            # the hook reads old under its own lock: disagreement means a write bypassed the setters
            out.append(V('C02', 'untraced-write', e['kind'], f"{e['nid']}: trace says {old}, task had {e['old']}", seq=e['seq']))
        obs['c02.edge:%s:%s->%s' % (e['kind'], old, new)] += 1
        if old in TERM and new != old:
            if old == 'error' and new == 'running' and revived[k] == 0 and e['nid'] in facts['catch_nids']:
                revived[k] += 1
                obs['c02.catch-revivals'] += 1
            else:
                why = cause_of(h, e['seq'])
                out.append(V('C02', 'terminal-rewritten', f"{e['kind']}:{old}->{new}:by-{why}:{h.race_tag(e['pid'])}", f"{e['kind']} {e['nid']} ({e['tid']}): {old} -> {new} caused by {why}", seq=e['seq']))
        elif rank(new) < rank(old):
            why = cause_of(h, e['seq'])
            out.append(V('C02', 'backwards', f"{e['kind']}:{old}->{new}:by-{why}:{h.race_tag(e['pid'])}", f"{e['kind']} {e['nid']} ({e['tid']}): {old} -> {new} caused by {why}", seq=e['seq']))
        elif rank(new) == rank(old) == 1 and old != new and old != 'ready':
            out.append(V('C02', 'created-refine', f"{e['kind']}:{old}->{new}", f"{e['kind']} {e['nid']}: {old} -> {new}", seq=e['seq']))
        last[k] = new
    # a reloaded instance that stays live to the end with a state that regresses the last known one
    final = h.final_tasks()
    for k, ld in loaded.items():
        t = final.get(k)
        old = last.get(k)
        if t is not None and t['state'] == ld and old is not None and ld != old and (old in TERM or rank(ld) < rank(old)):
            c = h.create_by.get(k) or {}
            out.append(V('C02', 'terminal-rewritten' if old in TERM else 'backwards', f"{c.get('kind')}:{old}->{ld}:by-reload:plain", f"{c.get('kind')} {c.get('nid')} ({k[1]}): {old} -> {ld} by a reload from the store; the reloaded instance is the live one at the end"))
    return out


# --------------------------------------------------------------------------- C03

def _hook_tids(h):
    hook = set()
    for _, _, snap in h.snapshots():
        for p in snap.get('live') or []:
            for t in p['tasks']:
                if (t.get('data') or {}).get('$is_event_processed'):
                    hook.add((p['pid'], t['tid']))
    return hook


def why_open(h, sc, facts, k, closer=None):
    """causal discriminator: why can task k (open) sit below a parent that was completed / a process that ended?
    closer = the client action record that caused the completion, if any"""
    chain = [k] + h.ancestors(k)
    nids = [h.create_by[c]['nid'] for c in chain if c in h.create_by]
    sub = [n for n in nids if n in facts['sub_nids']]
    if sub:
        return facts['sub_nids'][sub[0]] + '-substep'
    if sc.get('idless_catch'):
        # the steps of the catches carry no ids in this scenario: a step with a generated id can only be one of them
        for c_ in chain:
            cr = h.create_by.get(c_)
            if cr and cr['kind'] == 'step' and cr['nid'] not in facts['nodes']:
                return 'catch-substep'
    # created by a push action: acts pushed into a step hang off the step but later chained acts do not count
    c = h.create_by.get(k)
    for a in h.actions:
        if a['action'] == 'push' and a['ok'] and c and a['call'] < c['seq'] < a['seq']:
            return 'pushed-act'
        # ... or a later chained act of a step that also got a pushed act: the pushed act is a direct child of the
        # step, its completion reviews the step, and the step's child count does not contain the chained act
        if a['action'] == 'push' and a['ok'] and (a['pid'], a['tid']) in chain[1:]:
            return 'pushed-act'
    # the earliest closure of an ancestor over this (still open) task is the root cause
    first = None
    for anc in chain[1:]:
        for e in h.states:
            if (e['pid'], e['tid']) == anc and e['new'] in TERM and e['via'] == 'set':
                if first is None or e['seq'] < first[0]:
                    first = (e['seq'], anc)
                break
    if first is not None:
        closer = closing_action(h, first[0])
    if closer is not None and closer.get('action') != 'push':
        tgt = (closer['pid'], closer['tid'])
        if tgt in chain[1:]:
            return 'client-closed-composite'          # the client's action closed an act that still had open children
        if closer.get('action') == 'skip':
            return 'skip-propagation'                 # a skipped act skips its composite parents although other children are open
    insts = collections.Counter(cc['nid'] for cc in h.creates if cc['pid'] == k[0])
    if any(insts[n] > 1 for n in nids):
        if any(a['ok'] and a['action'] in ('back', 'cancel') for a in h.actions):
            return 'abandoned-by-back'
        if facts['has_jump']:
            return 'jump-abandoned'
    # a later act of a step: chained acts have prev = the previous act, so the step's own child count never sees them
    kind, node = facts['nodes'].get(nids[0], (None, {}))
    par = h.parent(k)
    if par and par in h.create_by:
        pk, pn = facts['nodes'].get(h.create_by[par]['nid'], (None, {}))
        if pk == 'step' and pn.get('acts') and pn.get('branches'):
            return 'mixed-step'
    for anc in chain[1:]:
        ak, an = facts['nodes'].get(h.create_by[anc]['nid'], (None, {})) if anc in h.create_by else (None, {})
        if ak == 'step' and an.get('acts') and an.get('branches'):
            return 'mixed-step'
    return 'other'


def mon_c03(h, sc, obs):
    out = []
    facts = model_facts(sc)
    hook = _hook_tids(h)
    # (a) parent completes only after everything created beneath it is terminal
    st = {}
    kids = collections.defaultdict(set)   # ancestor -> descendants created so far
    for e in h.R:
        if e['t'] == 'create':
            k = (e['pid'], e['tid'])
            st[k] = 'none'
            for a in h.ancestors(k):
                kids[a].add(k)
        elif e['t'] == 'state':
            k = (e['pid'], e['tid'])
            st[k] = e['new']
            if e['new'] == 'completed' and e['via'] == 'set' and kids.get(k):
                obs['c03.parent-completions'] += 1
                for d in kids[k]:
                    s_ = st.get(d, 'none')
                    if s_ not in TERM and d not in hook:
                        dn = h.create_by[d]
                        why = cause_of(h, e['seq'])
                        disc = f"{e['kind']}-over-{dn['kind']}:{why_open(h, sc, facts, d, closing_action(h, e['seq']))}:by-{why if why == 'engine' else 'client'}:{h.race_tag(e['pid'])}"
                        out.append(V('C03', 'completed-with-open-descendant', disc,
                                     f"{e['kind']} {e['nid']} set completed while {dn['kind']} {dn['nid']} ({d[1]}) is {s_}; cause {why}", seq=e['seq']))
    # (b) proc state == root state at every quiescent point, in memory and in the proc row
    for seq, kind, snap in h.snapshots():
        rows = {r['id']: r for r in (snap.get('procs') or []) if isinstance(r, dict)} if isinstance(snap.get('procs'), list) else {}
        for p in snap.get('live') or []:
            root = [t for t in p['tasks'] if t['tid'] == '$']
            if not root:
                continue
            obs['c03.proc-root-compares'] += 1
            if root[0]['state'] != p['state']:
                out.append(V('C03', 'proc-state-differs-from-root', f"{p['state']}!={root[0]['state']}:{h.race_tag(p['pid'])}", f"pid {p['pid']}: process {p['state']} root {root[0]['state']}", seq=seq))
            r = rows.get(p['pid'])
            if r is not None and r.get('state') != root[0]['state']:
                out.append(V('C03', 'proc-row-differs-from-root', f"{r.get('state')}!={root[0]['state']}:{h.race_tag(p['pid'])}", f"pid {p['pid']}: proc row {r.get('state')} root {root[0]['state']}", seq=seq))
    # (c) one start event, one terminal event (complete xor error)
    chan0 = ((sc.get('channels') or [{'id': 'main'}])[0]).get('id', 'main')
    cbs = collections.defaultdict(list)
    for e in h.cbs:
        if e['chan'] == chan0:
            cbs[e['pid']].append(e)
    final = h.final_tasks()
    procs = h.final_procs()
    restarted = any(f.get('what') == 'restart' for f in h.by['fault']) or any(o.get('op') == 'restart' for o in h.ops)
    for pid in h.pids():
        l = cbs.get(pid, [])
        ns = sum(1 for e in l if e['what'] == 'start')
        term = [e for e in l if e['what'] != 'start']
        obs['c03.procs'] += 1
        if ns != 1:
            out.append(V('C03', 'start-event-count', str(ns), f"pid {pid}: {ns} start events"))
        if len(term) > 1:
            why = h.race_tag(pid)
            out.append(V('C03', 'terminal-event-count', f"{len(term)}:{why}", f"pid {pid}: terminal events {[(e['what'], e['state']) for e in term]}"))
        root = final.get((pid, '$'))
        if root and root['state'] in TERM and len(term) == 0 and not restarted:
            out.append(V('C03', 'terminal-event-missing', root['state'], f"pid {pid}: root is {root['state']} but no complete/error event was delivered"))
        if term:
            obs['c03.terminal-events:%s' % term[0]['state']] += 1
            if (term[0]['what'] == 'error') != (term[0]['state'] == 'error'):
                out.append(V('C03', 'terminal-event-kind', f"{term[0]['what']}:{term[0]['state']}", f"pid {pid}: {term[0]['what']} event reports state {term[0]['state']}"))
        # (d) nothing left open after a non-error ending
        if term and term[0]['state'] in NONERR_END and pid in procs:
            closer = None
            for e in h.states:
                if e['pid'] == pid and e['tid'] == '$' and e['new'] in TERM:
                    closer = closing_action(h, e['seq'])
                    break
            for k, t in final.items():
                if k[0] == pid and t['state'] in OPEN and k not in hook:
                    why = why_open(h, sc, facts, k, closer)
                    out.append(V('C03', 'open-after-end', f"{term[0]['state']}:{t['kind']}:{why}:{h.race_tag(pid)}",
                                 f"pid {pid} ended {term[0]['state']} but {t['kind']} {t['nid']} ({k[1]}) is {t['state']} [{why}]"))
    # (e) "so nothing can later be acted on": after the terminal event the process is dropped from the cache and every act
    #     task of the reloaded process is tried (probe_acts).  A task that memory showed terminal and that can be acted on
    #     after the reload was closed in memory only
    for o in h.ops:
        if o.get('op') != 'probe_acts' or not isinstance(o.get('res'), dict):
            continue
        pid = sc['ops'][o['i']].get('pid', 'p1')
        term = [e for e in cbs.get(pid, []) if e['what'] != 'start' and e['seq'] < o['seq']]
        if not o['res'].get('ended') or not term:
            continue
        obs['c03.acts-probed-after-end'] += o['res'].get('tried', 0)
        for a in o['res'].get('accepted') or []:
            t = final.get((pid, a['tid']))
            if t is not None and t['state'] in TERM:
                out.append(V('C03', 'acted-on-after-end', f"{term[0]['state']}:revived-by-reload:{t['state']}->{a['state']}", f"pid {pid} ended {term[0]['state']}; after a reload from the store act {a['nid']} ({a['tid']}) is {a['state']} again (memory said {t['state']}) and a client action on it is accepted"))
            else:
                obs['c03.acted-on-after-end:left-open'] += 1     # reported by (d) with its cause
    return out


# --------------------------------------------------------------------------- C08

MAP = {'none': 'none', 'ready': 'created', 'pending': 'created', 'running': 'created', 'interrupted': 'created'}


def mstate(s):
    return MAP.get(s, s)


def nested_resume(h, k):
    """was task k completed inside the synchronous resume of one of its pending (else / needs) child branches?
    (the outer review then emits the completion a second time)"""
    w = next((e['seq'] for e in h.states if (e['pid'], e['tid']) == k and e['new'] == 'completed'), None)
    if w is None:
        return False
    spans = {}
    for e in h.execs:
        kk = (e['pid'], e['tid'])
        if e['phase'] == 'begin':
            spans.setdefault(kk, []).append([e['seq'], 1 << 62])
        elif spans.get(kk):
            spans[kk][-1][1] = e['seq']
    for kk, l in spans.items():
        if kk[0] != k[0] or h.parent(kk) != k:
            continue
        resumed = any((e['pid'], e['tid']) == kk and e['old'] == 'pending' and e['new'] == 'running' for e in h.states)
        if resumed and any(b < w < e_ for b, e_ in l):
            return True
    return False


def mon_c08(h, sc, obs):
    out = []
    facts = model_facts(sc)
    app_pk = {p_['name']: p_.get('run_as', 'msg') for p_ in sc.get('packages') or []}
    final = h.final_tasks()
    ade = h.actions_during_exec()
    chans = sc.get('channels') or [{'id': 'main'}]
    chan0 = chans[0].get('id', 'main')
    default_filter = all(chans[0].get(k, '*') == '*' for k in ('type', 'state', 'tag', 'key', 'uses'))
    acked = any(c.get('ack') for c in chans)
    emits = [e for e in h.emits if e['what'] == 'message']
    dels_all = [e for e in h.delivers if e['chan'] == chan0]
    # redeliveries of unacknowledged messages (retry > 0, an acknowledging channel) are C09's subject: the lifecycle
    # rules below look at the first generation and the first delivery of every message id
    dels = [e for e in dels_all if not e.get('retry')]
    obs['c08.messages-generated'] += len(emits)
    obs['c08.messages-delivered'] += len(dels_all)
    # producer/consumer: every generated message delivered exactly once (per generation)
    if default_filter:
        ec = collections.Counter(e['id'] for e in emits)
        dc = collections.Counter(e['id'] for e in dels_all)
        closed = any(o.get('op') in ('chan_close', 'unsub', 'restart') for o in h.ops) or h.by['fault']
        for i, c in ec.items():
            if dc[i] != c and not closed:
                e = [x for x in emits if x['id'] == i][0]
                out.append(V('C08', 'delivery-count', f"{c}->{dc[i]}", f"message {i} ({e['tid']} {e['state']}) generated {c}x delivered {dc[i]}x"))
        if not acked:
            for i, c in ec.items():
                if c > 1:
                    out.append(V('C08', 'duplicate-message-id', '', f"message id {i} generated {c} times"))
    per = collections.defaultdict(list)
    # process events (start / complete / error) handed to an acknowledging channel are stored as messages too and come
    # back through the message path when a tick redelivers them
    seen_ids = {e['id'] for e in h.emits if e['what'] != 'message'} if acked else set()
    for e in emits:
        if acked and e['id'] in seen_ids:
            continue              # a redelivery generated by a tick
        seen_ids.add(e['id'])
        per[(e['pid'], e['tid'])].append(e)
    reached = collections.defaultdict(list)
    for e in h.states:
        reached[(e['pid'], e['tid'])].append((e['seq'], e['new']))
    firstdel = {}
    for d in dels:
        firstdel.setdefault(d['id'], d)
    for k, ms in per.items():
        t = final.get(k)
        c = h.create_by.get(k)
        kind = (t or c or {}).get('kind')
        nid = (t or c or {}).get('nid')
        uses = t.get('uses') if t else None
        # only first generations count for multiplicity (retries re-emit the same id)
        seen = set()
        firsts = []
        for m in ms:
            if m['id'] not in seen:
                seen.add(m['id'])
                firsts.append(m)
        created = [m for m in firsts if m['state'] == 'created']
        term = [m for m in firsts if m['state'] in TERM]
        race = h.race_tag(k[0])
        revived = [s for s in reached.get(k, [])]
        was_revived = any(a[1] == 'error' and b[1] == 'running' for a, b in zip(revived, revived[1:]))
        if len(created) > 1:
            out.append(V('C08', 'duplicate-created', f"{kind}:{race}", f"{kind} {nid} ({k[1]}): {len(created)} created messages"))
        if len(term) > 1:
            states = [m['state'] for m in term]
            if was_revived and states[0] == 'error' and len(term) == 2:
                # the statement: a task whose error is taken by its own catch reports only its eventual ending
                out.append(V('C08', 'caught-error-reported', f"{kind}", f"{kind} {nid}: error message emitted although the error was taken by its own catch; messages {states}"))
            else:
                why = cause_of(h, term[1]['seq'])
                if race != 'plain':
                    disc = f"{kind}:{race}"
                else:
                    disc = f"{kind}:{'+'.join(states)}:by-{why if why == 'engine' else 'client'}:{'nested-resume' if nested_resume(h, k) else 'direct'}:plain"
                out.append(V('C08', 'duplicate-terminal', disc, f"{kind} {nid} ({k[1]}): terminal messages {states}; cause {why}"))
        if kind == 'branch':
            out.append(V('C08', 'branch-message', '', f"branch {nid} produced messages {[m['state'] for m in ms]}"))
        if created and term and created[0]['seq'] > term[0]['seq']:
            out.append(V('C08', 'created-after-terminal', f"{kind}:{race}", f"{kind} {nid}: created message generated after the terminal one"))
        # content agreement with the task it describes
        for m in firsts:
            d = firstdel.get(m['id'])
            if d is None:
                continue
            obs['c08.content-compares'] += 1
            ref = t or {}
            bad = []
            if d['pid'] != k[0] or d['tid'] != k[1]:
                bad.append('pid/tid')
            if c and d['nid'] != c['nid']:
                bad.append('nid')
            if c and d['type'] != c['kind']:
                bad.append('type')
            if t and (d['key'] != t['key'] or d['uses'] != t['uses'] or d['tag'] != t['tag']):
                bad.append('key/uses/tag')
            if d['state'] != m['state']:
                bad.append('state(delivered!=generated)')
            held = {mstate(s) for _, s in reached.get(k, []) if _ < m['seq']}
            if held and m['state'] not in held:
                bad.append(f"state {m['state']} never held before generation (held {sorted(held)})")
            if bad:
                out.append(V('C08', 'content-mismatch', f"{kind}:{','.join(b.split(' ')[0] for b in bad)}", f"{kind} {nid}: message {m['state']} disagrees with its task on {bad}"))
        # a parent's created message precedes every child's
        if created:
            for p in h.ancestors(k):
                pm = [m for m in per.get(p, []) if m['state'] == 'created']
                if pm and pm[0]['seq'] > created[0]['seq']:
                    out.append(V('C08', 'child-created-before-parent', f"{kind}", f"{kind} {nid}: created message generated before its ancestor's"))
    # per task obligations
    for k, t in final.items():
        ms = []
        seen = set()
        for m in per.get(k, []):
            if m['id'] not in seen:
                seen.add(m['id'])
                ms.append(m)
        kind, uses, nid = t['kind'], t['uses'], t['nid']
        # packages registered by the application behave like the built-in act of their run mode
        uses = {'irq': IRQ, 'msg': MSG}.get(app_pk.get(uses), uses)
        sts = [s for _, s in reached.get(k, [])]
        vis = kind in ('workflow', 'step') or (kind == 'act' and uses == IRQ)
        created = [m for m in ms if m['state'] == 'created']
        term = [m for m in ms if m['state'] in TERM]
        race = h.race_tag(k[0])
        obs['c08.tasks-checked'] += 1
        if vis:
            if any(s in ('running', 'interrupted') for s in sts) and len(created) == 0:
                out.append(V('C08', 'missing-created', f"{kind}:{race}", f"{kind} {nid} ({k[1]}) started ({sts}) without a created message"))
            if t['state'] in TERM:
                ok = len(term) >= 1 and term[-1]['state'] == t['state']
                if not ok:
                    out.append(V('C08', 'terminal-message-mismatch', f"{kind}:{t['state']}:{'+'.join(m['state'] for m in term) or 'none'}:{race}",
                                 f"{kind} {nid} ({k[1]}) ended {t['state']} but terminal messages are {[m['state'] for m in term]}"))
        if kind == 'act' and uses == MSG and 'running' in sts and not (t.get('data') or {}).get('$is_event_processed'):
            if not (len(ms) == 1 and ms[0]['state'] == 'completed') and t['state'] in TERM:
                out.append(V('C08', 'msg-act-messages', f"{'+'.join(m['state'] for m in ms) or 'none'}:{race}", f"msg act {nid} ran but produced {[m['state'] for m in ms]}"))
    return out


# --------------------------------------------------------------------------- C01

def open_irqs(p):
    return [t for t in p['tasks'] if t['kind'] == 'act' and t['uses'] == IRQ and t['state'] == 'interrupted']


def mon_c01(h, sc, obs):
    """at every confirmed quiescent point a started, unfinished process waits on something a client can answer.
    needs snapshots ('live') at quiescent points"""
    out = []
    facts = model_facts(sc)
    chan0 = ((sc.get('channels') or [{'id': 'main'}])[0]).get('id', 'main')
    term_cb = {}
    for e in h.cbs:
        if e['chan'] == chan0 and e['what'] != 'start':
            term_cb.setdefault(e['pid'], e['seq'])
    term_cb_any = {}
    for e in h.cbs:
        if e['what'] != 'start':
            term_cb_any.setdefault(e['pid'], e['seq'])
    ade = h.actions_during_exec()
    left = [o for o in h.ops if o.get('op') == 'run']
    points = [{'seq': q['seq'], 'snap': q.get('snap')} for q in h.qps] + [{'seq': o['seq'], 'snap': o['res']} for o in h.ops if o.get('op') == 'snapshot' and isinstance(o.get('res'), dict) and 'live' in o['res']]
    points.sort(key=lambda x: x['seq'])
    for e in points:
        snap = e.get('snap')
        if not snap or snap.get('inflight') not in (0, None):
            continue
        q_seq = e['seq']
        for p in snap.get('live') or []:
            obs['c01.process-quiescent-points'] += 1
            pid = p['pid']
            if pid in term_cb and term_cb[pid] < e['seq']:
                continue
            root = [t for t in p['tasks'] if t['tid'] == '$']
            if not root:
                # not initialised yet although nothing is in flight
                out.append(V('C01', 'stuck-before-root', '', f"pid {pid}: quiescent without a root task", seq=e['seq']))
                continue
            irqs = open_irqs(p)
            if irqs:
                obs['c01.waiting-on-irq'] += 1
                continue
            # an unexpired timeout rule on an open task
            pending_timeout = any(t['state'] in OPEN and any(hk.startswith('Timeout') for hk in t.get('hooks') or [])
                                  and not all((t.get('data') or {}).get('$is_timeout_' + r.get('on', ''), False) for r in ((facts['nodes'].get(t['nid'], (None, {}))[1]).get('timeout') or [{}]))
                                  for t in p['tasks'])
            if pending_timeout:
                obs['c01.waiting-on-timeout'] += 1
                continue
            # a running sub-process (from the history, not from the dump: the child may not be cached at the moment)
            kids = [e['pid'] for e in h.cbs if e['what'] == 'start' and (e.get('inputs') or {}).get('$parent_pid') == pid and e['seq'] < q_seq]
            subs = [k for k in kids if not (k in term_cb_any and term_cb_any[k] < q_seq)]
            if subs:
                obs['c01.waiting-on-subprocess'] += 1
                continue
            if p['state'] in TERM and root[0]['state'] in TERM:
                # finished, but the terminal event has not been delivered although nothing is in flight
                out.append(V('C01', 'finished-without-terminal-event', p['state'], f"pid {pid}: {p['state']} at a quiescent point, no terminal event delivered", seq=e['seq']))
                continue
            opens = [t for t in p['tasks'] if t['state'] in OPEN and not (t.get('data') or {}).get('$is_event_processed')]
            # discriminators: which kind/state is stranded, and whether a client action overlapped a scheduler exec in this process
            kinds = sorted({f"{t['kind']}:{t['state']}" for t in opens})
            race = h.race_tag(pid)
            strand = stranded_reason(h, pid, p, opens)
            out.append(V('C01', 'stuck', f"{strand}:{race}", f"pid {pid}: quiescent, unfinished, nothing answerable; open tasks {[(t['kind'], t['nid'], t['state']) for t in opens][:8]}", seq=e['seq']))
    return out


def stranded_reason(h, pid, p, opens):
    """causal discriminator for a stuck process"""
    if h.hook_stall(pid):
        return 'hook-child-finished-last:' + h.hook_stall(pid)
    # a client action accepted on an act that had been left open below a parent that had already ended (what C03 reports
    # as an abandoned task): what that action sets off runs outside the live part of the tree
    for a in h.actions:
        if a['ok'] and a['pid'] == pid and a['action'] not in ('push', 'set_process_vars'):
            par = h.parent((pid, a['tid']))
            if par:
                ended = [e for e in h.states if (e['pid'], e['tid']) == par and e['new'] in TERM and e['seq'] < a['call']]
                if ended:
                    return f"action-on-act-of-ended-parent:{ended[0]['new']}"
    pend = [t for t in opens if t['state'] == 'pending']
    if pend:
        # was the deciding sibling already terminal before this branch was initialised?
        t = pend[0]
        k = (pid, t['tid'])
        init_seq = next((e['seq'] for e in h.states if (e['pid'], e['tid']) == k and e['new'] == 'pending'), None)
        par = h.parent(k)
        sib_term = [e['seq'] for e in h.states if e['pid'] == pid and e['new'] in TERM and h.parent((pid, e['tid'])) == par and e['tid'] != t['tid']]
        if init_seq is not None and sib_term and min(sib_term) < init_seq:
            return 'pending-branch:sibling-finished-before-init'
        return 'pending-branch:sibling-finished-after-init' if sib_term else 'pending-branch:no-sibling-finished'
    none_ = [t for t in opens if t['state'] == 'none']
    if none_:
        return 'task-never-executed'
    ready = [t for t in opens if t['state'] in ('ready',)]
    if ready:
        return 'task-left-ready'
    kinds = sorted({t['kind'] for t in opens if t['state'] == 'running'})
    return 'running-with-nothing-open:' + '+'.join(kinds)


def mon_c05_generic(h, sc, obs):
    """admission, whatever the workload: a terminal action accepted on an act whose last recorded state (of any instance of
    the process) was already terminal; an action accepted on a task of a process whose non-error terminal event is out"""
    out = []
    last = {}
    acts_ = {(e['pid'], e['tid']) for e in h.creates if e['kind'] == 'act'}
    ended, ended_seq, opened = {}, {}, {}
    facts = model_facts(sc)
    writes = collections.defaultdict(list)
    for e_ in h.states:
        if e_['via'] == 'set':
            writes[(e_['pid'], e_['tid'])].append(e_)
    evs = sorted([('s', e['seq'], e) for e in h.states if e['via'] == 'set'] + [('a', a['call'], a) for a in h.actions] + [('c', e['seq'], e) for e in h.cbs if e['what'] != 'start'], key=lambda x: x[1])
    closed_as = {}
    for kind, _, e in evs:
        if kind == 's':
            last[(e['pid'], e['tid'])] = e['new']
            if e['new'] in TERM and e['new'] != 'error':
                closed_as.setdefault((e['pid'], e['tid']), e['new'])
            if e['new'] in OPEN and e['old'] in ('none', 'ready'):
                opened[(e['pid'], e['tid'])] = e['seq']
        elif kind == 'c':
            ended.setdefault(e['pid'], e['state'])
            ended_seq.setdefault(e['pid'], e['seq'])
        else:
            k = (e['pid'], e['tid'])
            if not e['ok'] or e['action'] in ('push', 'set_process_vars') or k not in acts_:
                continue
            obs['c05.accepted-actions-checked'] += 1
            st = last.get(k)
            if st in TERM and any(w_['new'] not in TERM and w_.get('thread') != e.get('thread') for w_ in writes.get(k, []) if e['call'] < w_['seq'] < e['seq']):
                # the call waited for the process lock: somebody else (the catch of a racing error action) reopened the
                # act before this action ran
                obs['c05.accepted-after-a-concurrent-reopening'] += 1
                st = None
            if st in TERM:
                out.append(V('C05', 'accepted-on-terminal-act', f"{e['action']}:{st}", f"{e['action']} was accepted on act {e['tid']} whose last recorded state was {st}"))
            elif st is not None and k in closed_as and e['action'] in TERMINAL_ACTIONS:
                # (an act that FAILED may be taken by a catch and go on; an act that was completed, submitted, skipped,
                # removed, backed, cancelled or aborted is closed for good)
                out.append(V('C05', 'accepted-on-reopened-act', f"{e['action']}:{closed_as[k]}->{st}", f"{e['action']} was accepted on act {e['tid']}, which had been closed as {closed_as[k]} before and is {st} again"))
            elif ended.get(e['pid']) in NONERR_END and opened.get(k, 0) > ended_seq[e['pid']]:
                # (an act that was left open when the process ended is C03's subject, with its causes; here: an act that
                # was only opened after the process had ended)
                why = why_open(h, sc, facts, k)
                out.append(V('C05', 'accepted-on-ended-process', f"{ended[e['pid']]}:opened-after-the-end:{why}", f"{e['action']} was accepted on act {e['tid']}, which was opened after the process had delivered its {ended[e['pid']]} event [{why}]"))
    # what follows a task is created once: two tasks of one node with the same predecessor
    if not any(a['ok'] and a['action'] in ('back', 'cancel') for a in h.actions):
        twice = collections.Counter((e['pid'], e['prev'], e['nid']) for e in h.creates if e.get('prev'))
        obs['c05.successor-creations-checked'] += len(twice)
        for (pid, prev, nid), n in twice.items():
            if n > 1:
                kind_ = next((e['kind'] for e in h.creates if e['pid'] == pid and e['nid'] == nid), '?')
                if (sc.get('sched') or '').startswith('composite'):
                    out.append(V('C05', 'successor-created-twice', kind_, f"{n} tasks of node {nid} were created after task {prev}"))
                else:
                    obs['c05.successor-created-twice-outside-the-composite-part'] += 1
    return out


def mon_c08_mirror(h, sc, obs):
    """several clients subscribed with the same filter: each first-time message reaches each of them exactly once"""
    out = []
    chans = [c['id'] for c in sc.get('channels') or []]
    if len(chans) < 2:
        return out
    per = {c: collections.Counter() for c in chans}
    desc = {}
    for d in h.delivers:
        if d['chan'] in per and d.get('retry', 0) == 0:
            per[d['chan']][d['id']] += 1
            desc[d['id']] = f"{d['type']}/{d['state']}/{d['nid']}"
    ids = set().union(*[set(c) for c in per.values()])
    obs['c08.mirrored-messages'] += len(ids)
    for c in chans:
        miss = sorted(desc[i] for i in ids if per[c][i] == 0)
        twice = sorted(desc[i] for i in ids if per[c][i] > 1)
        if miss:
            out.append(V('C08', 'message-missing-on-one-client', f"{c}:{sc['engine'].get('store', 'mem')}", f"channel {c} did not receive {len(miss)} of {len(ids)} messages that another client with the same filter received, e.g. {miss[:3]}"))
        if twice:
            out.append(V('C08', 'message-twice-on-one-client', f"{c}:{sc['engine'].get('store', 'mem')}", f"channel {c} received {twice[:3]} more than once"))
    return out


# --------------------------------------------------------------------------- C11

def _norm_err(e):
    if e is None:
        return None
    if isinstance(e, str):
        try:
            e = json.loads(e)
        except Exception:
            return e
    if isinstance(e, dict):
        return {'ecode': e.get('ecode'), 'message': e.get('message')}
    return e


def mon_c11(h, sc, obs):
    """live process dump == store rows at every quiescent point (needs snapshots at level 'rows')"""
    out = []
    for seq, kind, snap in h.snapshots():
        if not isinstance(snap.get('tasks'), list) or not isinstance(snap.get('procs'), list):
            continue
        trow = collections.defaultdict(dict)
        for r in snap['tasks']:
            trow[r['pid']][r['tid']] = r
        prow = {r['id']: r for r in snap['procs']}
        for p in snap.get('live') or []:
            pid = p['pid']
            obs['c11.process-compares'] += 1
            r = prow.get(pid)
            if r is None:
                out.append(V('C11', 'proc-row-missing', '', f"pid {pid} live but no proc row", seq=seq))
                continue
            if r['state'] != p['state']:
                out.append(V('C11', 'proc-field', 'state', f"pid {pid}: row state {r['state']} live {p['state']}", seq=seq))
            if _norm_err(r.get('err')) != _norm_err(p.get('err')):
                out.append(V('C11', 'proc-field', 'err', f"pid {pid}: row err {r.get('err')} live {p.get('err')}", seq=seq))
            try:
                renv = json.loads(r.get('env') or '{}')
            except Exception:
                renv = r.get('env')
            if renv != p.get('env'):
                keys = sorted(set(p.get('env') or {}) ^ set(renv if isinstance(renv, dict) else {})) or sorted(k for k in (p.get('env') or {}) if not isinstance(renv, dict) or renv.get(k) != p['env'][k])
                why = 'script-or-model-env'
                out.append(V('C11', 'proc-field', 'env', f"pid {pid}: row env {str(renv)[:80]} live {str(p.get('env'))[:80]} (keys {keys[:4]})", seq=seq))
            live_t = {t['tid']: t for t in p['tasks']}
            rows = trow.get(pid, {})
            if set(live_t) != set(rows):
                out.append(V('C11', 'task-set', 'missing-rows' if set(live_t) - set(rows) else 'extra-rows',
                             f"pid {pid}: live-only {sorted(set(live_t) - set(rows))[:4]} row-only {sorted(set(rows) - set(live_t))[:4]}", seq=seq))
            for tid, t in live_t.items():
                row = rows.get(tid)
                if row is None:
                    continue
                obs['c11.task-compares'] += 1
                if row['state'] != t['state']:
                    out.append(V('C11', 'task-field', f"state:{t['kind']}:{row['state']}!={t['state']}", f"{t['kind']} {t['nid']}: row state {row['state']} live {t['state']}", seq=seq))
                if row.get('prev') != t.get('prev'):
                    out.append(V('C11', 'task-field', 'prev', f"{t['kind']} {t['nid']}: row prev {row.get('prev')} live {t.get('prev')}", seq=seq))
                if row.get('start_time') != t.get('start_time') or row.get('end_time') != t.get('end_time'):
                    which = 'start_time' if row.get('start_time') != t.get('start_time') else 'end_time'
                    out.append(V('C11', 'task-field', f"{which}:{t['kind']}", f"{t['kind']} {t['nid']}: row {which} {row.get(which)} live {t.get(which)}", seq=seq))
                try:
                    rh = sorted(f"{k_}:{len(v_)}" for k_, v_ in json.loads(row.get('hooks') or '{}').items())
                except Exception:
                    rh = None
                if rh is not None and t.get('hooks') is not None and rh != sorted(t['hooks']):
                    out.append(V('C11', 'task-field', f"hooks:{t['kind']}", f"{t['kind']} {t['nid']}: row hooks {rh} live {sorted(t['hooks'])}", seq=seq))
                if _norm_err(row.get('err')) != _norm_err(t.get('err')):
                    out.append(V('C11', 'task-field', f"err:{t['kind']}", f"{t['kind']} {t['nid']}: row err {row.get('err')} live {t.get('err')}", seq=seq))
                try:
                    rd = json.loads(row.get('data') or '{}')
                except Exception:
                    rd = row.get('data')
                if rd != t.get('data'):
                    ld = t.get('data') or {}
                    keys = sorted(k for k in set(ld) | set(rd if isinstance(rd, dict) else {}) if not isinstance(rd, dict) or rd.get(k, '\0') != ld.get(k, '\0'))
                    cls = ('internal:' + '+'.join(keys[:3])) if all(k.startswith('$') for k in keys) else 'user-keys'
                    out.append(V('C11', 'task-field', f"data:{t['kind']}:{cls}", f"{t['kind']} {t['nid']}: data differs on keys {keys[:5]}", seq=seq))
    return out
