"""Shared vocabulary of the monitors: task state classes, the History wrapper and small helpers.

A History is what the executor (harness/actsx) recorded for one scenario: client-boundary
records (action, deliver, cb, op, qp, ack, fault, late, deploy) merged with hook records
(state, create, emit, exec) under one sequence counter.
"""
import collections
import hashlib
import json

TERM = {'completed', 'submitted', 'backed', 'cancelled', 'error', 'aborted', 'skipped', 'removed'}
CREATED = {'ready', 'pending', 'interrupted'}
OPEN = {'none', 'ready', 'pending', 'running', 'interrupted'}
SUCCESS = {'completed', 'submitted'}
NONERR_END = {'completed', 'aborted', 'skipped'}
TERMINAL_ACTIONS = ('next', 'submit', 'skip', 'remove', 'abort', 'error', 'back')
IRQ = 'acts.core.irq'
MSG = 'acts.core.msg'


def rank(s):
    return 0 if s == 'none' else 1 if s in CREATED else 2 if s == 'running' else 3


def digest(obj):
    return hashlib.sha1(json.dumps(obj, sort_keys=True, default=str).encode()).hexdigest()[:16]


class V(dict):
    """a violation candidate: rule id, signature (rule + causal discriminator), human detail"""

    def __init__(self, prop, rule, sig_extra, detail, **kw):
        super().__init__(prop=prop, rule=rule, sig=f'{prop}/{rule}' + (f':{sig_extra}' if sig_extra else ''), detail=detail, **kw)


class Hist:
    def __init__(self, h):
        self.raw = h
        self.id = h.get('id')
        self.status = h.get('status')
        self.panics = h.get('panics') or []
        self.R = h.get('records') or []
        self.by = collections.defaultdict(list)
        for e in self.R:
            self.by[e['t']].append(e)
        self.states = self.by['state']
        self.creates = self.by['create']
        self.emits = self.by['emit']
        self.delivers = self.by['deliver']
        self.cbs = self.by['cb']
        self.qps = self.by['qp']
        self.actions = self.by['action']
        self.ops = self.by['op']
        self.execs = self.by['exec']
        self.create_by = {(e['pid'], e['tid']): e for e in self.creates}
        self._parent = {}

    # ---- conclusiveness
    def conclusive(self):
        return self.status == 'ok' and not self.panics

    def late(self):
        return len(self.by['late'])

    # ---- structure (the engine's own parent rule: walk prev links to the first lower level)
    def parent(self, k):
        if k in self._parent:
            return self._parent[k]
        c = self.create_by.get(k)
        res = None
        if c:
            lvl = c['level']
            p = c['prev']
            seen = 0
            while p is not None and seen < 10000:
                seen += 1
                pc = self.create_by.get((k[0], p))
                if not pc:
                    break
                if pc['level'] < lvl:
                    res = (k[0], p)
                    break
                p = pc['prev']
        self._parent[k] = res
        return res

    def ancestors(self, k):
        r = []
        p = self.parent(k)
        while p:
            r.append(p)
            p = self.parent(p)
        return r

    # ---- dumps
    def snapshots(self):
        """all snapshots in order: (seq, kind, snap) from qp records and snapshot ops"""
        out = []
        for e in self.R:
            if e['t'] == 'qp' and e.get('snap'):
                out.append((e['seq'], 'qp', e['snap']))
            elif e['t'] == 'op' and e.get('op') == 'snapshot' and isinstance(e.get('res'), dict) and 'live' in e['res']:
                out.append((e['seq'], 'op', e['res']))
        return out

    def final_snapshot(self):
        s = self.snapshots()
        return s[-1][2] if s else None

    def final_tasks(self):
        """{(pid,tid): task dump} from the last snapshot's live dump"""
        snap = self.final_snapshot()
        out = {}
        if snap:
            for p in snap.get('live') or []:
                for t in p['tasks']:
                    out[(p['pid'], t['tid'])] = t
        return out

    def final_procs(self):
        snap = self.final_snapshot()
        return {p['pid']: p for p in (snap.get('live') or [])} if snap else {}

    def op_results(self, name=None):
        return [e for e in self.ops if name is None or e.get('op') == name]

    def pids(self):
        return sorted({e['pid'] for e in self.creates})

    def is_hook_task(self, t):
        return bool((t.get('data') or {}).get('$is_event_processed'))

    # ---- the "client action concurrent with the scheduler's exec of the same task" discriminator
    def actions_during_exec(self):
        """set of (pid, tid) of tasks whose scheduler-side execution overlapped, on ANOTHER thread, a client action
        on the same process (the engine has no per-process lock)"""
        if hasattr(self, '_ade'):
            return self._ade
        spans = collections.defaultdict(list)
        open_ = {}
        for e in self.execs:
            k = (e['pid'], e['tid'])
            if e['phase'] == 'begin':
                open_.setdefault(k, []).append((e['seq'], e.get('thread')))
            elif open_.get(k):
                b, th = open_[k].pop()
                spans[k[0]].append((b, e['seq'], th, k))
        for k, l in open_.items():
            for b, th in l:
                spans[k[0]].append((b, 1 << 62, th, k))
        hit = set()
        for a in self.actions:
            for b, e, th, k in spans.get(a['pid'], ()):
                if a['call'] < e and a['seq'] > b and th != a.get('thread'):
                    hit.add(k)
        self._ade = hit
        return hit

    def twin_success_pids(self):
        """pids in which two client actions on one task overlapped in time and both returned Ok
        (the engine has no per-process lock: guard and write of an action are not atomic)"""
        if hasattr(self, '_tsp'):
            return self._tsp
        by = collections.defaultdict(list)
        for a in self.actions:
            if a['ok']:
                by[(a['pid'], a['tid'])].append((a['call'], a['seq']))
        hit = set()
        for k, l in by.items():
            l.sort()
            for (b1, e1), (b2, e2) in zip(l, l[1:]):
                if b2 < e1:
                    hit.add(k[0])
        self._tsp = hit
        return hit

    def overlapping_action_pids(self):
        """pids in which two client actions (any tasks) overlapped in time"""
        if hasattr(self, '_oap'):
            return self._oap
        by = collections.defaultdict(list)
        for a in self.actions:
            by[a['pid']].append((a['call'], a['seq']))
        hit = set()
        for k, l in by.items():
            l.sort()
            for (b1, e1), (b2, e2) in zip(l, l[1:]):
                if b2 < e1:
                    hit.add(k)
        self._oap = hit
        return hit

    def race_tag(self, pid):
        """historic discriminator: client actions, the scheduler's task execution and the tick of one process are
        serialised by a per-process lock (since the fix: commits 823e955 / 812b6f7), so an observed overlap of an
        action interval with an execution span is only lock waiting and explains nothing; every finding is 'plain'"""
        return 'plain'

    def hook_stall(self, pid):
        """True when the final dump shows a running parent all of whose children are terminal and whose LAST child
        to finish was a lifecycle-hook act: a finished hook act never reviews its parent, so the parent is stranded
        when a hook act happens to run after the regular children"""
        final = self.final_tasks()
        term_seq = {}
        for e in self.states:
            if e['new'] in TERM:
                term_seq[(e['pid'], e['tid'])] = e['seq']
        for k, t in final.items():
            if k[0] != pid or t['state'] != 'running':
                continue
            kids = [c for c in final if c[0] == pid and self.parent(c) == k]
            if not kids or any(final[c]['state'] not in TERM for c in kids):
                continue
            last = max(kids, key=lambda c: term_seq.get(c, -1))
            if (final[last].get('data') or {}).get('$is_event_processed'):
                return t['kind']
        return None

    def interleaving_signature(self):
        return digest([(e['t'], e.get('nid') or e.get('what') or e.get('action'), e.get('new') or e.get('state')) for e in self.R if e['t'] in ('state', 'emit', 'action')])
