"""Family F-ack (C09): an acknowledging channel, virtual clock, manual ticks at several spacings, per message a
seeded behaviour (ack at delivery k / never / act on its task), global redo / clear at random points, retry
limits 1..5, both stores.  Oracle: per-message status automaton with retry arithmetic, driven by what the
client observed (deliveries, acks, actions, ticks) and compared with the stored rows."""
import collections
import json

from common import IRQ, MSG, V, digest

STATUS = {0: 'created', 1: 'acked', 2: 'completed', 3: 'error'}


def content(d):
    return (d['type'], d['state'], d['key'], d['nid'], d['tid'], d['pid'], json.dumps(d.get('inputs'), sort_keys=True), json.dumps(d.get('outputs'), sort_keys=True))


class AckFamily:
    name = 'ack'

    def gen(self, rng, idx, opts):
        n = rng.randint(1, 3)
        acts = [{'id': f'a{i}', 'uses': IRQ, 'key': f'k{i}'} for i in range(n)]
        if rng.random() < 0.5:
            acts.insert(rng.randint(0, n), {'id': 'am', 'uses': MSG, 'key': 'km'})
        if rng.random() < 0.5:
            wf = {'id': 'm1', 'steps': [{'id': 's1', 'branches': [{'id': f'b{i}', 'if': 'true', 'steps': [{'id': f'sb{i}', 'acts': [a]}]} for i, a in enumerate(acts)]}]}
        else:
            wf = {'id': 'm1', 'steps': [{'id': 's1', 'acts': acts}]}
        interval_s = rng.choice([5, 10, 60])
        I = interval_s * 1000
        max_retry = rng.randint(1, 5)
        store = opts.get('store') or rng.choice(['mem', 'mem', 'sqlite'])
        # responder rules: ack some messages at their k-th delivery (retry == k-1)
        rules = []
        for sel in ({'type': 'workflow'}, {'type': 'step'}, {'type': 'act', 'state': 'created'}, {'type': 'act', 'state': 'completed'}):
            r = rng.random()
            if r < 0.45:
                k = rng.randint(0, max_retry)
                rules.append({'match': dict(sel, retry=k, state=sel.get('state', 'created')), 'action': 'ack', 'times': 100})
        ops = [{'op': 'start', 'mid': 'm1', 'vars': {'pid': 'p1'}}]
        two = rng.random() < 0.3
        if two:
            ops.append({'op': 'start', 'mid': 'm1', 'vars': {'pid': 'p2'}})      # a second process: clear(pid) and actions must not touch its messages
        ops += [{'op': 'run'}, {'op': 'snapshot', 'level': 'msgs'}]
        raced = False
        for _ in range(rng.randint(3, 9)):
            k = rng.random()
            if k < 0.12:
                ops.append({'op': 'msg_redo'})
            elif k < 0.2:
                ops.append({'op': 'msg_clear', 'pid': rng.choice(['p1', 'p1', 'p2', 'nosuch'])} if rng.random() < 0.7 else {'op': 'msg_clear'})
            elif k < 0.35:
                ops += [{'op': 'act', 'target': {'pid': rng.choice(['p1', 'p2']) if two else 'p1', 'kind': 'act', 'state': 'interrupted', 'occ': rng.choice([0, -1])}, 'action': 'next'}, {'op': 'run'}]
            elif k < 0.5 and opts.get('races', True):
                # the tick runs while clients acknowledge delivered messages (and act) from their own threads
                sel = rng.choice([{'chan': 'main'}, {'type': 'act'}, {'type': 'step'}, {'state': 'created'}, {'type': 'workflow'}])
                race = {'op': 'tick_race', 'select': sel, 'spin_us': rng.choice([0, 0, 20, 100, 300])}
                if rng.random() < 0.3:
                    race['calls'] = [{'target': {'pid': 'p1', 'kind': 'act', 'state': 'interrupted', 'occ': rng.choice([0, -1])}, 'action': 'next'}]
                ops += [{'op': 'advance', 'ms': rng.choice([I + 1, I + 1, 3 * I, I // 2])}, race, {'op': 'run'}]
                raced = True
            else:
                ops += [{'op': 'advance', 'ms': rng.choice([I // 2, I + 1, I + 1, 3 * I, I - 1])}, {'op': 'tick'}, {'op': 'run'}]
            ops.append({'op': 'snapshot', 'level': 'msgs'})
        if raced:
            ops += [{'op': 'advance', 'ms': I + 1}, {'op': 'tick'}, {'op': 'run'}, {'op': 'snapshot', 'level': 'msgs'}]
        if store == 'sqlite' and rng.random() < opts.get('restart', 0.5):
            # the engine is stopped and started again on the same database: the stored messages go on as before
            at = rng.choice([i for i, o in enumerate(ops) if o['op'] == 'snapshot'])
            ops[at + 1:at + 1] = [{'op': 'restart'}, {'op': 'quiesce'}, {'op': 'snapshot', 'level': 'msgs'}]
            if rng.random() < 0.6:
                ops += [{'op': 'advance', 'ms': I + 1}, {'op': 'tick'}, {'op': 'run'}, {'op': 'snapshot', 'level': 'msgs'}]
        rt = rng.choice([{'flavor': 'current'}, {'flavor': 'current', 'chaos': {'max_yields': 3, 'seed': rng.randrange(1, 1 << 40)}}, {'flavor': 'multi', 'workers': 2, 'chaos': {'max_yields': 2, 'seed': rng.randrange(1, 1 << 40)}}])
        if raced and rng.random() < 0.7:
            rt = {'flavor': 'multi', 'workers': 2, 'chaos': {'max_yields': 2, 'pause_us': rng.choice([20, 100, 300]), 'seed': rng.randrange(1, 1 << 40)}}
        sc = {'id': '', 'family': 'ack', 'sched': rt['flavor'] + '-' + store + ('-raced' if raced else ''), 'runtime': rt, 'engine': {'store': store, 'keep_processes': True, 'max_retry': max_retry, 'tick_interval_secs': interval_s}, 'models': [json.dumps(wf)],
              'channels': [{'id': 'main', 'ack': True}] + ([{'id': 'second', 'ack': True, 'events': False}] if rng.random() < opts.get('second', 0.25) else []),
              'responder': {'mode': rng.choice(['quiescent', 'quiescent', 'inline']), 'rules': rules}, 'ops': ops, 'watchdog_ms': 60000}
        if len(sc['channels']) > 1:
            sc['sched'] += '-twoack'       # a second acknowledging client with the same filter: it records the same messages
        return {'scenarios': [sc], 'meta': {'wf': wf, 'I': I, 'max': max_retry, 'store': store}, 'digest': digest([wf, rules, ops, max_retry, I]), 'nontrivial': True}

    def judge(self, c, opts, obs):
        out = []
        h, sc, m = c['hist'][0], c['scenarios'][0], c['meta']
        sid = sc['id']
        I, MAX, store = m['I'], m['max'], m['store']
        M = {}            # id -> dict(status, retry, last, content, tid, pid)
        tick_open = None  # (t_before) while between a tick's start and its end we only know the end record
        # deliveries are attributed to the tick whose window contains them: windows from op records
        windows = []
        prev = 0
        for o in h.ops:
            if o['op'] in ('tick', 'tick_race'):
                windows.append((prev, o['seq'], o['res']['t_before'], o['res']['t_after']))
            prev = o['seq']

        def window_of(seq):
            for w in windows:
                if w[0] < seq < w[1]:
                    return w
            return None
        redelivered = collections.defaultdict(list)   # (window start) -> ids
        restarts = 0
        # the engine decides a redelivery when it emits it; the handler runs later, from a spawned task.  "Redelivered
        # after acked" is judged on the emission: the k-th delivery record of an id is paired with its k-th emission
        emits = collections.defaultdict(collections.deque)
        for e in h.R:
            if e['t'] == 'emit' and e.get('what') == 'message':
                emits[e['id']].append(e['seq'])
        for e in h.R:
            t = e['t']
            if t == 'deliver' and e['chan'] == 'main':
                e = dict(e, emit_seq=emits[e['id']].popleft() if emits[e['id']] else e['seq'])
            if t in ('deliver', 'cb') and e['chan'] == 'main':
                i = e['id']
                obs['c09.deliveries'] += 1
                if e['retry'] == 0 and i in M and (M[i]['epoch'], 0) not in M[i]['seen']:
                    # the (late) record of the first delivery of a message whose redelivery was recorded first
                    M[i]['seen'].add((M[i]['epoch'], 0))
                    if e.get('stored') is not True:
                        out.append(V('C09', 'not-stored-before-handler', store, f"message {e['type']}/{e['state']}/{e['key']} was not readable from the store when its handler ran", scenario=sid))
                    continue
                if e['retry'] == 0 and i not in M:
                    if e.get('stored') is not True:
                        out.append(V('C09', 'not-stored-before-handler', store, f"message {e['type']}/{e['state']}/{e['key']} was not readable from the store when its handler ran", scenario=sid))
                    acting = [a['seq'] for a in h.actions if a['ok'] and a['pid'] == e['pid'] and a['tid'] == e['tid'] and a['call'] < e['seq']]
                    acted = bool(acting)
                    M[i] = {'seen': {(0, 0)}, 'epoch': 0, 'maybe_completed': True, 'maybe_until': max(acting) if acting else 0, 'first_seq': e['seq'], 'status': 'created', 'retry': 0, 'last': e['now'], 'content': content(e), 'tid': e['tid'], 'pid': e['pid'], 'desc': f"{e['type']}/{e['state']}/{e['key']}"}
                    if not acted:
                        M[i].pop('maybe_completed')
                    continue
                if i not in M:
                    # handlers run in independently spawned tasks: the record of a redelivery can be written before
                    # the record of the first delivery of the same message
                    M[i] = {'first_seq': e['seq'], 'status': 'created', 'retry': -1, 'last': e['now'], 'content': content(e), 'tid': e['tid'], 'pid': e['pid'],
                            'desc': f"{e['type']}/{e['state']}/{e['key']}", 'seen': set(), 'epoch': 0}
                x = M[i]
                w = window_of(e['seq'])
                obs['c09.redeliveries'] += 1
                if e.get('emit_seq', e['seq']) > x.get('maybe_until', 0):
                    x.pop('maybe_completed', None)      # redelivered after the closing action had returned: it did not close this row
                if x['status'] != 'created' and e.get('emit_seq', e['seq']) < x.get('status_seq', 0):
                    obs['c09.redeliveries-emitted-before-the-status-change'] += 1
                    continue
                if x['status'] != 'created':
                    out.append(V('C09', 'redelivered-after-' + x['status'], store, f"message {x['desc']} was redelivered (retry {e['retry']}) although its status is {x['status']}", scenario=sid))
                    continue
                if w is None:
                    obs['c09.redeliveries-by-the-engines-own-timer'] += 1   # the interval timer's tick (e.g. the start-up tick) is a tick too
                if content(e) != x['content']:
                    out.append(V('C09', 'redelivered-content-differs', store, f"message {x['desc']} changed between deliveries", scenario=sid))
                if (x['epoch'], e['retry']) in x['seen']:
                    out.append(V('C09', 'retry-arithmetic', f"{store}:repeated", f"message {x['desc']}: retry {e['retry']} was delivered twice", scenario=sid))
                x['seen'].add((x['epoch'], e['retry']))
                if e['retry'] > MAX:
                    out.append(V('C09', 'retry-beyond-maximum', store, f"message {x['desc']}: retry {e['retry']} > max {MAX}", scenario=sid))
                if w is not None:
                    if i in redelivered[w[0]]:
                        out.append(V('C09', 'redelivered-twice-in-one-tick', store, f"message {x['desc']} delivered twice in one tick", scenario=sid))
                    redelivered[w[0]].append(i)
                if e['retry'] > x['retry']:
                    x['retry'] = e['retry']
                    x['last'] = e['now']
                continue
                x['retry'] = e['retry']
                x['last'] = e['now']
            elif t == 'ack' and e['ok'] and e['id'] in M:
                x = M[e['id']]
                if x['status'] == 'cleared':
                    continue                  # its row is gone: the ack finds nothing and says Ok
                if x['status'] == 'completed' or x.get('maybe_completed'):
                    x['closed_twice'] = True  # acknowledged and acted on: either closing status is the last one written
                if x['status'] == 'created' or 'status_seq' not in x:
                    x['status_seq'] = e['seq']
                x['status'] = 'acked'
                obs['c09.acks'] += 1
            elif t == 'action' and e['ok'] and e['action'] != 'push':
                for x in M.values():
                    if x['tid'] == e['tid'] and x['pid'] == e['pid'] and x['status'] != 'cleared':
                        if x['first_seq'] > e['call']:
                            # first delivered while the action was in progress: its row may or may not have existed
                            # when the action closed the messages of this task
                            x['maybe_completed'] = True
                            x['maybe_until'] = max(x.get('maybe_until', 0), e['seq'])
                        else:
                            if x['status'] == 'acked':
                                x['closed_twice'] = True
                            if x['status'] == 'created' or 'status_seq' not in x:
                                x['status_seq'] = e['seq']
                            x['status'] = 'completed'
                obs['c09.actions'] += 1
            elif t == 'op':
                op = sc['ops'][e['i']]
                if op['op'] in ('tick', 'tick_race'):
                    if op['op'] == 'tick_race':
                        obs['c09.ticks-raced-with-client-calls'] += 1
                    w = [w for w in windows if w[1] == e['seq']][0]
                    tb, ta = w[2], w[3]
                    for i, x in M.items():
                        if x['status'] != 'created' or i in redelivered[w[0]]:
                            continue
                        obs['c09.tick-decisions'] += 1
                        due = tb - x['last'] > I + 50          # last was read a little after the engine stamped it
                        if x.get('fresh_after', 0) > w[0]:
                            continue                      # first delivered during this very tick window
                        if due and x['retry'] < MAX:
                            out.append(V('C09', 'not-redelivered-when-due', store, f"message {x['desc']} (created, retry {x['retry']}/{MAX}) was not redelivered at a tick {tb - x['last']} ms after its last delivery (interval {I})", scenario=sid))
                        elif due and x['retry'] >= MAX:
                            x['status'] = 'error'
                            x['status_seq'] = e['seq']
                            obs['c09.exhausted'] += 1
                        elif x['retry'] >= MAX:
                            x['maybe_error'] = True      # not provably due: the engine may or may not have marked it
                elif op['op'] == 'restart':
                    # the new engine's start-up tick can run before the client has registered its channel again: one
                    # redelivery per restart may go to nobody (the stored retry count moves on all the same)
                    restarts += 1
                    obs['c09.restarts'] += 1
                    for x in M.values():
                        if x['status'] == 'created':
                            x['lost_allow'] = x.get('lost_allow', 0) + 1
                            if x['retry'] >= MAX:
                                x['maybe_error'] = True
                elif op['op'] == 'msg_redo':
                    for x in M.values():
                        if x['status'] == 'error' or x.get('maybe_error'):
                            if x['status'] == 'error':
                                x.update(status='created', retry=0, last=e['res'].get('now', x['last']), epoch=x['epoch'] + 1)
                            else:
                                x['maybe_redo'] = True
                    obs['c09.redos'] += 1
                elif op['op'] == 'msg_clear':
                    pid = op.get('pid')
                    for i in [i for i, x in M.items() if x['status'] == 'error' and (pid is None or x['pid'] == pid)]:
                        M[i]['status'] = 'cleared'
                    obs['c09.clears'] += 1
                elif op['op'] == 'snapshot' and isinstance(e['res'].get('messages'), list):
                    rows = {r['id']: r for r in e['res']['messages']}
                    for i, x in M.items():
                        r = rows.get(i)
                        obs['c09.row-compares'] += 1
                        if x['status'] == 'cleared':
                            if r is not None:
                                out.append(V('C09', 'cleared-message-still-stored', store, f"message {x['desc']} was in error and cleared but its row remains", scenario=sid))
                            continue
                        if r is None:
                            if not (x.get('maybe_error')):
                                out.append(V('C09', 'message-row-missing', store, f"message {x['desc']} (status {x['status']}) has no row", scenario=sid))
                            continue
                        rs = STATUS.get(r['status'], r['status'])
                        if x.pop('maybe_completed', None) and rs == 'completed':
                            x['status'] = 'completed'
                        if x.get('maybe_error') or x.get('maybe_redo'):
                            if rs in ('error', 'created'):
                                # resolve the don't-care from the row
                                if rs == 'error':
                                    x['status'] = 'error'
                                elif x.get('maybe_redo') and r['retry_times'] == 0:
                                    x.update(status='created', retry=0, epoch=x['epoch'] + 1)
                                x.pop('maybe_error', None)
                                x.pop('maybe_redo', None)
                                continue
                        if x.get('closed_twice') and rs in ('acked', 'completed'):
                            continue
                        if rs != x['status']:
                            out.append(V('C09', 'stored-status', f"{store}:{x['status']}->{rs}", f"message {x['desc']}: stored status {rs}, the status automaton says {x['status']} (retry {x['retry']}/{MAX})", scenario=sid))
                            x['status'] = rs if rs in ('created', 'acked', 'completed', 'error') else x['status']
                        elif x['status'] == 'created' and 0 < r['retry_times'] - x['retry'] <= x.get('lost_allow', 0):
                            x['lost_allow'] -= r['retry_times'] - x['retry']
                            x['lost'] = x.get('lost', 0) + r['retry_times'] - x['retry']
                            x['retry'] = r['retry_times']
                            x['last'] = max(x['last'], r.get('update_time') or 0)
                            obs['c09.redeliveries-lost-to-an-unregistered-client-after-restart'] += 1
                        elif x['status'] == 'created' and r['retry_times'] != x['retry']:
                            out.append(V('C09', 'stored-retry', f"{store}", f"message {x['desc']}: stored retry_times {r['retry_times']}, observed {x['retry']}", scenario=sid))
        for i, x in M.items():
            by = collections.defaultdict(set)
            for ep, r in x['seen']:
                by[ep].add(r)
            for ep, rs in by.items():
                lo = 0 if ep == 0 else 1
                holes = (max(rs) - min(rs) + 1 - len(rs)) if rs else 0
                if rs and 0 < holes <= x.get('lost', 0) + x.get('lost_allow', 0) and not (min(rs) > lo and not x.get('maybe_redo')):
                    continue
                if rs and sorted(rs) != list(range(min(rs), max(rs) + 1)) or (rs and min(rs) > lo and not x.get('maybe_redo')):
                    out.append(V('C09', 'retry-arithmetic', f"{store}:gap", f"message {x['desc']}: retries delivered {sorted(rs)} (epoch {ep})", scenario=sid))
        return out
