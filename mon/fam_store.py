"""Family F-store (C10): random operation sequences over the store collections on both back ends, judged
against a sequential list-of-records model and against each other."""
import json
import random

from common import V, digest

CHARS = 'abcxyzé✓ 0123'
HOSTILE = ["'", '"', '%', '_', '\\', ';', '--', '\n', '\t', '😀', 'A', 'Z', '`', '(', ')', '?', '$1', ':x', '名', '\u00a0', 'NULL', "''", 'é', '~']


def _s(r):
    if r.random() < 0.35:
        # text that SQL, LIKE patterns, bind syntax or a collation could treat specially
        return ''.join(r.choice(HOSTILE) if r.random() < 0.6 else r.choice(CHARS) for _ in range(r.randint(0, 6)))
    return ''.join(r.choice(CHARS) for _ in range(r.randint(0, 6)))


def rec(coll, r, i):
    big = lambda: r.choice([0, 1, -1, r.randint(-10 ** 12, 10 ** 12), r.randint(0, 99), 2 ** 31 + r.randint(0, 9), 10, 9, 100, 2 ** 53 + r.randint(0, 3), -(2 ** 53) - r.randint(0, 3), 2 ** 63 - 1 - r.randint(0, 2), -(2 ** 63) + r.randint(0, 2)])
    u = lambda f: (f'{f}-{i}-{_s(r)}' if r.random() < 0.93 else _s(r))       # now and then no distinguishing prefix at all (also the empty string)
    opt = lambda f: None if r.random() < 0.4 else u(f)
    if coll == 'tasks':
        return dict(id=f't{i}', pid=r.choice(['p1', 'p2', 'p3']), tid=u('tid'), node_data=u('nd'), kind=r.choice(['step', 'act', 'workflow']), prev=opt('prev'), name=u('name'),
                    state=r.choice(['running', 'completed', 'error']), data=u('data'), err=opt('err'), start_time=big(), end_time=big(), hooks=u('hooks'), timestamp=big())
    if coll == 'procs':
        return dict(id=f'p{i}', state=r.choice(['running', 'completed', 'none']), mid=r.choice(['m1', 'm2']), name=u('name'), start_time=big(), end_time=big(), timestamp=big(),
                    model=u('model'), env=u('env'), err=opt('err'))
    if coll == 'messages':
        return dict(id=f'm{i}', tid=u('tid'), name=u('name'), state=r.choice(['created', 'completed', 'error', 'skipped']), type=r.choice(['workflow', 'step', 'act']), model=u('model'),
                    pid=r.choice(['p1', 'p2']), nid=u('nid'), mid=u('mid'), key=u('key'), uses=u('uses'), inputs=u('in'), outputs=u('out'), tag=u('tag'), start_time=big(), end_time=big(),
                    chan_id=u('chan'), chan_pattern=u('pat'), create_time=big(), update_time=big(), retry_times=r.randint(0, 50), status=r.randint(0, 3), timestamp=big())
    if coll == 'models':
        return dict(id=f'w{i}', name=u('name'), ver=r.randint(0, 99), size=r.randint(0, 9999), create_time=big(), update_time=big(), data=u('data'), timestamp=big())
    if coll == 'events':
        return dict(id=f'e{i}', name=u('name'), mid=r.choice(['m1', 'm2', 'm3']), ver=r.randint(0, 99), uses=u('uses'), params=u('params'), create_time=big(), timestamp=big())
    if coll == 'packages':
        return dict(id=f'pk{i}', desc=u('desc'), icon=u('icon'), doc=u('doc'), version=u('ver'), schema=u('schema'), run_as=r.choice(['func', 'irq', 'msg']), resources=u('res'),
                    catalog=r.choice(['core', 'event', 'transform', 'form', 'ai', 'app']), built_in=r.random() < 0.5, create_time=big(), update_time=big(), timestamp=big())
    raise ValueError(coll)


NUM = {'tasks': ['start_time', 'end_time', 'timestamp'], 'procs': ['start_time', 'end_time', 'timestamp'],
       'messages': ['start_time', 'end_time', 'create_time', 'update_time', 'retry_times', 'status', 'timestamp'],
       'models': ['ver', 'size', 'create_time', 'update_time', 'timestamp'], 'events': ['ver', 'create_time', 'timestamp'],
       'packages': ['create_time', 'update_time', 'timestamp']}
NULLABLE = {'tasks': ['prev', 'err'], 'procs': ['err'], 'messages': [], 'models': [], 'events': [], 'packages': []}
# the status column is an enum stored as a number on both back ends; filters use the enum value
NOFILTER = {'messages': [], 'tasks': [], 'procs': [], 'models': [], 'events': [], 'packages': ['built_in']}


def gen_query(coll, r, db):
    sample = list(db.values())
    fields = [k for k in rec(coll, random.Random(0), 0) if k not in NOFILTER[coll]]
    conds = []
    for _ in range(r.randint(0, 3)):
        exprs = []
        if r.random() < 0.25:
            # the same column compared with several values (one of them may be null) in one AND / OR group
            k = r.choice(fields)
            vals = [r.choice([s[k] for s in sample] + ['nomatch' if k not in NUM[coll] else 7]) if sample else ('x' if k not in NUM[coll] else 1) for _ in range(r.randint(2, 3))]
            if k in NULLABLE[coll]:
                vals[r.randrange(len(vals))] = None
            conds.append(dict(type=r.choice(['or', 'or', 'and']), exprs=[dict(op=r.choice(['eq', 'eq', 'eq', 'ne']) , key=k, value=v) for v in vals]))
            continue
        for _ in range(r.randint(1, 3)):
            k = r.choice(fields)
            if k in NULLABLE[coll] and r.random() < 0.4 and sample:
                op, v = r.choice(['eq', 'ne']), r.choice([s[k] for s in sample if s[k] is not None] or [None])
            elif k in NULLABLE[coll]:
                op, v = r.choice(['eq', 'ne']), None
            elif k in NUM[coll]:
                op = r.choice(['eq', 'ne', 'lt', 'le', 'gt', 'ge'])
                v = r.choice([s[k] for s in sample] + [0, 5, -3]) if sample else 0
            else:
                op = r.choice(['eq', 'ne'])
                v = r.choice([s[k] for s in sample] + ['nomatch']) if sample else 'x'
            exprs.append(dict(op=op, key=k, value=v))
        conds.append(dict(type=r.choice(['and', 'or']), exprs=exprs))
    order = [[r.choice(fields if r.random() < 0.5 else NUM[coll]), r.random() < 0.5] for _ in range(r.randint(0, 2))]
    order = [o for o in order if o[0] not in NULLABLE[coll]]
    return dict(conds=conds, order=order, offset=r.choice([0, 0, 1, 3, 100]), limit=r.choice([1, 2, 5, 100]))


def ev(e, row):
    l, v, op = row[e['key']], e['value'], e['op']
    if op == 'eq':
        return l == v
    if op == 'ne':
        return l != v
    if not isinstance(l, (int, float)) or not isinstance(v, (int, float)):
        return False
    return {'lt': l < v, 'le': l <= v, 'gt': l > v, 'ge': l >= v}[op]


def model_query(db, q):
    rows = [r for r in db.values() if all((all if c['type'] == 'and' else any)(ev(e, r) for e in c['exprs']) for c in q['conds'])]
    for k, rev in reversed(q['order']):
        rows.sort(key=lambda r: (r[k].encode() if isinstance(r[k], str) else r[k]), reverse=rev)
    return rows


class StoreFamily:
    name = 'store'

    def gen(self, rng, idx, opts):
        coll = rng.choice(['tasks', 'procs', 'messages', 'models', 'events', 'packages'])
        db, ops, exp, nid = {}, [], [], 0
        gone = []
        if coll == 'packages':
            ops.append(dict(op='store', coll=coll, call='purge', arg=None))
            exp.append(None)
        for _ in range(opts.get('nops', 60)):
            c = rng.random()
            if c < 0.3 or not db:
                nid += 1
                x = rec(coll, rng, nid)
                db[x['id']] = x
                ops.append(dict(op='store', coll=coll, call='create', arg=x))
                exp.append(None)
            elif c < 0.4:
                k = rng.choice(list(db))
                x = rec(coll, rng, nid + 1000)
                x['id'] = k
                db[k] = x
                ops.append(dict(op='store', coll=coll, call='update', arg=x))
                exp.append(None)
            elif c < 0.415:
                # create with an id that exists: refused, the record stays what it was (on both back ends)
                k = rng.choice(list(db))
                x = rec(coll, rng, nid + 3000)
                x['id'] = k
                ops.append(dict(op='store', coll=coll, call='create', arg=x))
                exp.append(None)
                ops.append(dict(op='store', coll=coll, call='find', arg=k))
                exp.append(('find', json.loads(json.dumps(db[k]))))
            elif c < 0.43:
                # update of an id that does not exist (never created, or deleted before): changes nothing
                x = rec(coll, rng, nid + 2000)
                x['id'] = rng.choice(gone + [x['id'] + 'never']) if gone else x['id'] + 'never'
                if x['id'] not in db:
                    ops.append(dict(op='store', coll=coll, call='update', arg=x))
                    exp.append(None)
                    ops.append(dict(op='store', coll=coll, call='exists', arg=x['id']))
                    exp.append(('exists', False))
            elif c < 0.47:
                k = rng.choice(list(db))
                gone.append(k)
                del db[k]
                ops.append(dict(op='store', coll=coll, call='delete', arg=k))
                exp.append(None)
            elif c < 0.6:
                k = rng.choice(list(db) + ['zz'])
                ops.append(dict(op='store', coll=coll, call='find', arg=k))
                exp.append(('find', json.loads(json.dumps(db.get(k)))))
            elif c < 0.65:
                k = rng.choice(list(db) + ['zz'])
                ops.append(dict(op='store', coll=coll, call='exists', arg=k))
                exp.append(('exists', k in db))
            else:
                q = gen_query(coll, rng, db)
                rows = model_query(db, q)
                ops.append(dict(op='store', coll=coll, call='query', arg=q))
                exp.append(('query', json.loads(json.dumps(rows)), q))
        scs = []
        for store in ('mem', 'sqlite'):
            scs.append({'id': '', 'family': 'store', 'sched': store, 'runtime': {'flavor': 'current'}, 'engine': {'store': store}, 'models': [], 'responder': {'rules': []}, 'ops': ops})
        return {'scenarios': scs, 'meta': {'coll': coll, 'exp': exp}, 'digest': digest(ops), 'nontrivial': True}

    def judge(self, c, opts, obs):
        out = []
        coll, exp = c['meta']['coll'], c['meta']['exp']
        res = {}
        for h, sc in zip(c['hist'], c['scenarios']):
            res[sc['engine']['store']] = [o['res'] for o in h.ops]
        for i, e in enumerate(exp):
            if e is None:
                continue
            for be in ('mem', 'sqlite'):
                g = res[be][i]
                obs[f'c10.{be}.{coll}.{e[0]}'] += 1
                sid = c['scenarios'][0 if be == 'mem' else 1]['id']
                if 'panic' in g or 'harness_err' in g:
                    out.append(V('C10', 'panic', f'{be}:{coll}', f'{be} {coll} {e[0]}: {g}', scenario=sid))
                    continue
                if e[0] == 'find':
                    if g.get('v') != e[1]:
                        if e[1] is None or g.get('v') is None:
                            bad = ['<presence>']
                        else:
                            bad = sorted(k for k in e[1] if g['v'].get(k) != e[1][k])
                        out.append(V('C10', 'find-record-differs', f"{be}:{coll}:{','.join(bad)}", f"{be} {coll}.find: fields {bad} differ from what was created/updated, e.g. {[(k, e[1].get(k), g['v'].get(k)) for k in bad[:2]] if '<presence>' not in bad else (e[1] is None, g.get('v') is None)}", scenario=sid))
                elif e[0] == 'exists':
                    if g.get('v') != e[1]:
                        out.append(V('C10', 'exists-wrong', f'{be}:{coll}', f"{be} {coll}.exists -> {g.get('v')} expected {e[1]}", scenario=sid))
                else:
                    rows, q = e[1], e[2]
                    if 'err' in g:
                        keys = sorted({x['key'] for cnd in q['conds'] for x in cnd['exprs']} | {o[0] for o in q['order']})
                        which = [k for k in keys if k in g['err']] or ['?']
                        out.append(V('C10', 'query-error', f"{be}:{coll}:{which[0]}", f"{be} {coll}.query failed: {g['err'][:100]}", scenario=sid))
                        continue
                    if g['count'] != len(rows):
                        empty_and = any(cnd['type'] == 'and' and any(not any(ev(x, r) for r in self._db_rows(c, i)) for x in cnd['exprs']) for cnd in q['conds'])
                        out.append(V('C10', 'query-count', f"{be}:{coll}:{'more' if g['count'] > len(rows) else 'fewer'}:{'and-with-empty-partial' if empty_and else 'other'}",
                                     f"{be} {coll}.query count {g['count']} expected {len(rows)} for {json.dumps(q['conds'])[:200]}", scenario=sid))
                        continue
                    win = rows[q['offset']:q['offset'] + q['limit']]
                    gi = [x['id'] for x in g['rows']]
                    wi = [x['id'] for x in win]
                    total = bool(q['order']) and len({json.dumps([x[k] for k, _ in q['order']]) for x in rows}) == len(rows)
                    numeric = ','.join('num' if o[0] in NUM[coll] else 'str' for o in q['order'])
                    if total:
                        if gi != wi:
                            out.append(V('C10', 'query-order-or-page', f'{be}:{coll}:{numeric}', f"{be} {coll}.query order {q['order']} window [{q['offset']}:+{q['limit']}] ids {gi[:5]} expected {wi[:5]}", scenario=sid))
                    elif not q['order'] and q['offset'] == 0 and q['limit'] >= len(rows):
                        if sorted(gi) != sorted(wi):
                            out.append(V('C10', 'query-rows', f'{be}:{coll}', f"{be} {coll}.query returned ids {sorted(gi)[:5]} expected {sorted(wi)[:5]}", scenario=sid))
                    elif len(gi) != len(wi):
                        out.append(V('C10', 'query-page-size', f'{be}:{coll}', f"{be} {coll}.query page has {len(gi)} rows expected {len(wi)}", scenario=sid))
        # the two back ends against each other, op by op (only the compared result classes)
        for i, e in enumerate(exp):
            if e is None:
                continue
            a, b = res['mem'][i], res['sqlite'][i]
            if e[0] == 'query' and 'count' in a and 'count' in b and a['count'] != b['count']:
                obs['c10.backend-count-disagreements'] += 1
        return out

    def _db_rows(self, c, upto):
        """rows of the model database just before op `upto` (replayed from the op list)"""
        key = ('_db', upto)
        cache = c.setdefault('_cache', {})
        if key in cache:
            return cache[key]
        db = {}
        for op in c['scenarios'][0]['ops'][:upto]:
            if op['call'] == 'purge':
                db.clear()
            elif (op['call'] == 'create' and op['arg']['id'] not in db) or (op['call'] == 'update' and op['arg']['id'] in db):
                db[op['arg']['id']] = op['arg']
            elif op['call'] == 'delete':
                db.pop(op['arg'], None)
        cache[key] = list(db.values())
        return cache[key]
