"""Family F-load (C13): N concurrently started processes of 1..3 models, sweep of cache capacity and worker
threads, sequential or inline clients.  Oracle: per pid, the normalised message multiset, task outcomes and
outputs equal the solo run of the same (model, inputs); no value of another process appears; a second start
with a live pid is refused."""
import collections
import json

import flow
from common import IRQ, MSG, V, digest
from fam_restart import clean, declared_ids

PAR, SEQ = 'acts.core.parallel', 'acts.core.sequence'


def projection(h, pid, declared):
    msgs = collections.Counter()
    for e in h.delivers:
        if e['pid'] != pid:
            continue
        opts = (e.get('inputs') or {}).get('options') or {}
        name = e['nid'] if e['nid'] in declared else '~'
        msgs[(e['type'], name, ('~' if name == '~' and e['key'] == e['nid'] else e['key']), e['uses'], e['state'], json.dumps(opts.get('$index')), json.dumps(opts.get('$value')))] += 1
    cbs = collections.Counter((e['what'], e['state'], json.dumps({k: v for k, v in clean(e.get('outputs') or {}).items() if k != 't'}, sort_keys=True)) for e in h.cbs if e['pid'] == pid)
    # final task outcomes come from the task rows: under a small cache the process may not be cached any more
    snap = h.final_snapshot() or {}
    fin = collections.Counter()
    for r in snap.get('tasks') or []:
        if r['pid'] != pid:
            continue
        try:
            nid = json.loads(r['node_data']).get('id')
        except Exception:
            nid = None
        fin[(nid if nid in declared else '~', r['kind'], r['state'])] += 1
    return msgs, cbs, fin


class LoadFamily:
    name = 'load'

    def gen(self, rng, idx, opts):
        kind = opts.get('kind') or rng.choice(['static', 'static', 'generated'])
        nm = rng.randint(1, 3)
        models = []
        for j in range(nm):
            if kind == 'generated' and j == 0:
                g = rng.choice([PAR, SEQ])
                wf = {'id': f'm{j}', 'inputs': {'a': 0, 'b': 0, 't': 0}, 'outputs': {'t': None}, 'steps': [
                    {'id': 's1', 'acts': [{'id': 'g1', 'uses': g, 'params': {'in': ['u', 'v', 'w'][:rng.randint(1, 3)], 'acts': [{'uses': IRQ, 'key': 'gk'}]}}]}, {'id': 's2', 'acts': [{'id': 'a2', 'uses': IRQ, 'key': 'k2'}]}]}
            else:
                wf, _, _ = flow.gen_case(rng, 'plain')
                wf['id'] = f'm{j}'
                wf['inputs']['t'] = 0
                wf['outputs'] = {'t': None}
                if rng.random() < 0.3:
                    wf = flow.strip_ids(wf, rng)
            models.append(wf)
        churn = rng.random() < opts.get('churn', 0.0)
        if churn:
            # processes that end at once (every end makes the engine look for processes to restore from the store) next to
            # processes that are being launched at that very moment
            models.append({'id': 'mt', 'inputs': {'a': 0, 'b': 0, 't': 0}, 'outputs': {'t': None}, 'steps': [{'id': 'st', 'acts': [{'id': 'at', 'uses': MSG, 'key': 'mt'}]}]})
        N = rng.choice(opts.get('ns') or [2, 4, 8])
        cap = rng.choice(opts.get('caps') or [1, 2, 4, N, 1024, 1024])
        workers = rng.choice([1, 2, 4, 8])
        items = []
        for i in range(N):
            j = rng.randrange(nm)
            mid_ = 'mt' if churn and rng.random() < 0.5 else f'm{j}'
            items.append({'mid': mid_, 'vars': {'pid': f'p{i}', 'a': rng.randint(0, 3) if mid_ != 'mt' else 0, 'b': rng.randint(0, 3) if mid_ != 'mt' else 0, 't': 7000 + i}})
        mode = rng.choice(['quiescent', 'quiescent', 'inline'])
        rules = [{'match': {'uses': IRQ}, 'action': 'next', 'times': 100000}]
        immediate = rng.random() < 0.25
        starts_op = {'op': 'starts', 'items': items, 'threads': min(N, 8)}
        storm = rng.random() < opts.get('storm', 0.35)
        if storm:
            # further starts of p0 arrive from their own threads while the first one is being launched
            starts_op['dups'] = [{'mid': items[0]['mid'], 'vars': dict(items[0]['vars']), 'delay_us': rng.randint(0, rng.choice([300, 1000]))} for _ in range(rng.randint(6, 10))]
        ops = [starts_op] + ([] if immediate else [{'op': 'quiesce'}]) + [{'op': 'start', 'mid': items[0]['mid'], 'vars': dict(items[0]['vars'])}, {'op': 'run'}, {'op': 'snapshot', 'level': 'rows'}]
        rt = {'flavor': 'multi', 'workers': workers, 'chaos': {'max_yields': 3, 'seed': rng.randrange(1, 1 << 40)}}
        if storm:
            rt['chaos']['pause_us'] = rng.choice([30, 100, 300])
        if churn:
            rt['chaos']['pause_us'] = rng.choice([300, 600, 1200])
            if rng.random() < 0.6:
                # only the launch window (row written, process not in the cache yet) is held open, for milliseconds
                rt['chaos'].update(pause_us=rng.choice([3000, 6000, 10000]), pause_only='cache.push_proc')
        elif storm and rng.random() < 0.3:
            rt['chaos'].update(pause_us=rng.choice([1000, 3000]), pause_only='cache.push_proc')
        L = {'id': '', 'family': 'load', 'sched': f'N{N}-cap{cap}-w{workers}-{mode}', 'seed': rng.randrange(1 << 30), 'runtime': rt, 'engine': {'store': 'mem', 'keep_processes': True, 'cache_cap': cap},
             'models': [json.dumps(m) for m in models], 'responder': {'mode': mode, 'order': 'seeded', 'rules': rules, 'max_rounds': 100000}, 'ops': ops, 'watchdog_ms': 90000}
        solos = []
        keys = []
        for it in items:
            k = (it['mid'], it['vars']['a'], it['vars']['b'])
            if k in keys:
                continue
            keys.append(k)
            v = dict(it['vars'], pid='solo')
            solos.append({'id': '', 'family': 'load', 'sched': 'solo', 'runtime': {'flavor': 'current'}, 'engine': {'store': 'mem', 'keep_processes': True}, 'models': [json.dumps(m) for m in models],
                          'responder': {'mode': 'quiescent', 'order': 'fifo', 'rules': rules, 'max_rounds': 100000}, 'ops': [{'op': 'start', 'mid': it['mid'], 'vars': v}, {'op': 'run'}, {'op': 'snapshot', 'level': 'rows'}]})
        return {'scenarios': [L] + solos, 'meta': {'immediate': immediate, 'kind': kind, 'N': N, 'cap': cap, 'workers': workers, 'mode': mode, 'items': items, 'keys': keys},
                'digest': digest([models, items, cap, workers, mode]), 'nontrivial': True}

    def judge(self, c, opts, obs):
        out = []
        m = c['meta']
        L = c['hist'][0]
        sc = c['scenarios'][0]
        declared = declared_ids(sc['models'])
        solo = {k: projection(h, 'solo', declared) for k, h in zip(m['keys'], c['hist'][1:])}
        obs[f"c13.runs:{m['kind']}:N={m['N']}:cap={'small' if m['cap'] < m['N'] else 'large'}:w={m['workers']}:{m['mode']}"] += 1
        # duplicate start with a live pid
        dup = [o for o in L.ops if o['op'] == 'start']
        starts = [o for o in L.ops if o['op'] == 'starts'][0]['res']['results']
        storm = [o for o in L.ops if o['op'] == 'starts'][0]['res'].get('dups') or []
        accepted = sum(1 for r in storm if r['ok']) + (1 if starts[0]['ok'] else 0)
        if storm:
            obs['c13.duplicate-starts-during-launch'] += len(storm)
            if accepted > 1:
                out.append(V('C13', 'duplicate-pid-accepted', 'during-launch', f"{accepted} of {len(storm) + 1} concurrent starts with the pid p0 were accepted", scenario=sc['id']))
            if accepted >= 1 and not starts[0]['ok']:
                starts = [dict(starts[0], ok=True)] + list(starts[1:])     # one of the other starts of p0 won: p0 runs all the same
        dup_ok = bool(dup and dup[0]['res']['ok'] and starts[0]['ok'])
        if dup_ok:
            first_root = next((e['seq'] for e in L.creates if e['pid'] == 'p0'), 1 << 62)
            when = 'before-first-launch-ran' if dup[0]['seq'] < first_root or m.get('immediate') else 'process-running'
            out.append(V('C13', 'duplicate-pid-accepted', when, f"a second start with the pid p0 of a started process was accepted ({when})", scenario=sc['id']))
        nstart = collections.Counter(e['pid'] for e in L.cbs if e['what'] == 'start')
        for i, it in enumerate(m['items']):
            pid = f'p{i}'
            if i == 0 and dup_ok:
                continue            # two processes share p0: already reported above
            if not starts[i]['ok']:
                out.append(V('C13', 'start-refused', '', f"start of {pid} failed: {starts[i].get('err')}", scenario=sc['id']))
                continue
            obs['c13.processes-compared'] += 1
            pj = projection(L, pid, declared)
            base = solo[(it['mid'], it['vars']['a'], it['vars']['b'])]
            evicted = m['cap'] < m['N']
            tag = f"{m['kind']}:{'cache-smaller-than-load' if evicted else 'all-cached'}:{m['mode']}:{L.race_tag(pid)}"
            if nstart[pid] != 1:
                out.append(V('C13', 'start-events', f"{nstart[pid]}:{tag}", f"{pid}: {nstart[pid]} start events", scenario=sc['id']))
            if pj != base:
                cls = set()
                for k in list((base[0] - pj[0]).keys()) + list((pj[0] - base[0]).keys()):
                    if k[1] == '~':
                        cls.add('generated-node-messages')
                    elif k[0] == 'step' and k[4] == 'completed' and base[0][k] >= 1 and pj[0][k] >= 1:
                        cls.add('step-completed-message-multiplicity')
                    elif k[0] == 'act' and k[4] in ('completed',) and base[0][k] >= 1 and pj[0][k] >= 1:
                        cls.add('act-completed-message-multiplicity')
                    else:
                        cls.add(f"messages:{k[0]}:{k[4]}:{'missing' if base[0][k] > pj[0][k] else 'extra'}")
                if pj[1] != base[1]:
                    # the process did not end like its solo run: everything else follows from that
                    cls = {'terminal-event-differs'}
                if 'terminal-event-differs' not in cls:
                    for k in list((base[2] - pj[2]).keys()) + list((pj[2] - base[2]).keys()):
                        cls.add('generated-node-tasks' if k[0] == '~' else f"final-task:{k[1]}:{k[2]}")
                miss = list((base[0] - pj[0]).items())[:3]
                extra = list((pj[0] - base[0]).items())[:3]
                reloaded = any(e['pid'] == pid and e['via'] == 'load' for e in L.states)
                cfg = ('cache-smaller-than-load' if evicted else 'all-cached') + (':reloaded-while-active' if reloaded else '')
                out.append(V('C13', 'differs-from-solo-run', f"{'|'.join(sorted(cls))[:120]}:{m['kind']}:{cfg}:{L.race_tag(pid)}", f"{pid} (model {it['mid']}, a={it['vars']['a']} b={it['vars']['b']}) under load N={m['N']} cap={m['cap']} workers={m['workers']} {m['mode']}: missing {miss} extra {extra}; events {sorted(pj[1])} vs solo {sorted(base[1])}", scenario=sc['id']))
            # no value of another process
            for e in L.cbs:
                if e['pid'] == pid and e['what'] == 'complete':
                    t = (e.get('outputs') or {}).get('t')
                    if t != 7000 + i:
                        out.append(V('C13', 'foreign-value', tag, f"{pid} ended with t={t}, its own value is {7000 + i}", scenario=sc['id']))
        return out


class RestoreBatchFamily:
    """several processes of ONE model started with the same inputs and without an explicit pid (their stored model texts are
    byte-identical), all forgotten by the cache; the end of another process makes the engine restore them from the store
    in one batch; then each of them runs a node that generates acts at run time.  Each process must behave as if it
    were alone: its own generated acts, nobody else's"""
    name = 'restorebatch'

    def gen(self, rng, idx, opts):
        gen_kind = rng.choice([PAR, SEQ, 'acts.core.block', 'setup'])
        lst = ['u', 'v', 'w'][:rng.randint(2, 3)]
        if gen_kind == 'acts.core.block':
            g = {'id': 'g1', 'uses': gen_kind, 'params': {'mode': rng.choice(['parallel', 'sequence']), 'acts': [{'uses': IRQ, 'key': 'gk'} for _ in lst]}}
            s1 = {'id': 's1', 'acts': [g]}
        elif gen_kind == 'setup':
            s1 = {'id': 's1', 'setup': [{'uses': MSG, 'key': 'gk', 'on': 'created'} for _ in lst], 'acts': [{'id': 'a1', 'uses': IRQ, 'key': 'k1'}]}
        else:
            s1 = {'id': 's1', 'acts': [{'id': 'g1', 'uses': gen_kind, 'params': {'in': lst, 'acts': [{'uses': IRQ, 'key': 'gk'}]}}]}
        wf = {'id': 'mg', 'inputs': {'a': 1}, 'steps': [{'id': 's0', 'acts': [{'id': 'a0', 'uses': IRQ, 'key': 'k0'}]}, s1, {'id': 's2', 'acts': [{'id': 'a2', 'uses': IRQ, 'key': 'k2'}]}]}
        tiny = {'id': 'mt', 'steps': [{'id': 'st', 'acts': [{'id': 'at', 'uses': MSG, 'key': 'mt'}]}]}
        n = rng.randint(2, 4)
        same = rng.random() < 0.7          # the same inputs for all (identical stored texts) or different ones
        items = [{'mid': 'mg', 'vars': {'a': 1 if same else i}} for i in range(n)]
        ops = [{'op': 'starts', 'items': items, 'threads': 1}, {'op': 'quiesce'}, {'op': 'evict'},
               {'op': 'start', 'mid': 'mt', 'vars': {'pid': 'pt'}}, {'op': 'quiesce'}, {'op': 'run'}, {'op': 'snapshot', 'level': 'rows'}]
        store = opts.get('store') or rng.choice(['mem', 'mem', 'sqlite'])
        rt = rng.choice([{'flavor': 'current'}, {'flavor': 'current', 'chaos': {'max_yields': 2, 'seed': rng.randrange(1, 1 << 40)}}, {'flavor': 'multi', 'workers': 2, 'chaos': {'max_yields': 2, 'seed': rng.randrange(1, 1 << 40)}}])
        sc = {'id': '', 'family': 'restorebatch', 'sched': rt['flavor'] + '-' + store, 'seed': rng.randrange(1 << 30), 'runtime': rt, 'engine': {'store': store, 'keep_processes': True, 'cache_cap': rng.choice([1024, 8])},
              'models': [json.dumps(wf), json.dumps(tiny)], 'responder': {'mode': 'quiescent', 'order': rng.choice(['fifo', 'lifo', 'seeded']), 'rules': [{'match': {'uses': IRQ}, 'action': 'next', 'times': 1000}]}, 'ops': ops}
        if store == 'sqlite':
            sc['watchdog_ms'] = 60000
        return {'scenarios': [sc], 'meta': {'kind': gen_kind, 'n': n, 'len': len(lst), 'same': same}, 'digest': digest([wf, n, same, store]), 'nontrivial': True}

    def judge(self, c, opts, obs):
        out = []
        h, sc, m = c['hist'][0], c['scenarios'][0], c['meta']
        sid = sc['id']
        res = [o for o in h.ops if o['op'] == 'starts'][0]['res']['results']
        pids = [r['pid'] for r in res if r['ok']]
        obs[f"c13.restore-batches:{m['kind']}:{'identical-texts' if m['same'] else 'different-inputs'}"] += 1
        if len(pids) != m['n']:
            out.append(V('C13', 'start-refused', 'restore', f"{m['n'] - len(pids)} of {m['n']} starts without an explicit pid failed: {[r.get('err') for r in res if not r['ok']]}", scenario=sid))
        tag = f"{m['kind'].split('.')[-1]}:{'identical-texts' if m['same'] else 'different-inputs'}"
        for pid in pids:
            obs['c13.restored-processes'] += 1
            gk = [d for d in h.delivers if d['pid'] == pid and d['key'] == 'gk' and d['state'] == ('completed' if m['kind'] == 'setup' else 'created')]
            if len(gk) != m['len']:
                out.append(V('C13', 'differs-from-solo-run', f"generated-acts:{'more' if len(gk) > m['len'] else 'fewer'}:restored-in-one-batch:{tag}", f"process {pid} (one of {m['n']} restored together) got {len(gk)} generated acts, alone it gets {m['len']}", scenario=sid))
            done = [e for e in h.cbs if e['pid'] == pid and e['what'] != 'start']
            if [(e['what'], e['state']) for e in done] != [('complete', 'completed')]:
                out.append(V('C13', 'differs-from-solo-run', f"terminal-event:restored-in-one-batch:{tag}", f"process {pid} (one of {m['n']} restored together) delivered {[(e['what'], e['state']) for e in done]}, alone it completes", scenario=sid))
        return out
