"""F-flow: generator of workflows in the bounded grammar of C04, the reference interpreter, and
scenario construction (schedules x client modes).

Grammar: workflow(inputs a,b) -> 1..4 steps; step = [if] + (1..3 acts | 1..3 branches [+ else | + needs] | nothing),
depth <= 3; act = irq | msg | set, each optionally with `if`; conditions are drawn from a tiny
expression language over a, b in 0..3 that the reference evaluates itself.
Sub-families: 'plain' (the grammar above), 'mixed' (steps with acts AND branches), 'loop' (documented
backward `next` idiom with a counter).
"""
import json
import random

from common import IRQ, MSG

CONDS = [
    ('a > 1', lambda a, b: a > 1), ('a + b == 3', lambda a, b: a + b == 3), ('a < b', lambda a, b: a < b),
    ('b >= 2', lambda a, b: b >= 2), ('a == b', lambda a, b: a == b), ('true', lambda a, b: True),
    ('false', lambda a, b: False), ('a * b > 2', lambda a, b: a * b > 2), ('a != 0', lambda a, b: a != 0),
    ('b - a > 1', lambda a, b: b - a > 1), ('a + b <= 2', lambda a, b: a + b <= 2),
]
CONDF = dict(CONDS)


class Gen:
    def __init__(self, rng):
        self.r = rng
        self.n = 0

    def nid(self, p):
        self.n += 1
        return f'{p}{self.n}'

    def cond(self):
        return self.r.choice(CONDS)[0]

    def act(self):
        k = self.r.choice(['irq', 'irq', 'msg', 'set'])
        a = {'id': self.nid('a')}
        if k == 'irq':
            a.update(uses=IRQ, key='k' + a['id'])
        elif k == 'msg':
            a.update(uses=MSG, key='m' + a['id'])
        else:
            a.update(uses='acts.transform.set', params={'z' + a['id']: 1})
        if self.r.random() < 0.3:
            a['if'] = self.cond()
        return a

    def step(self, depth, mixed=False):
        st = {'id': self.nid('s')}
        if self.r.random() < 0.25:
            st['if'] = self.cond()
        r = self.r.random()
        if r < 0.45:
            st['acts'] = [self.act() for _ in range(self.r.randint(1, 3))]
        elif r < 0.85 and depth < 3:
            st['branches'] = self.branches(depth)
            if mixed and self.r.random() < 0.6:
                st['acts'] = [self.act() for _ in range(self.r.randint(1, 2))]
        return st

    def branches(self, depth):
        n = self.r.randint(1, 3)
        bs = []
        for _ in range(n):
            bs.append({'id': self.nid('b'), 'if': self.cond(), 'steps': [self.step(depth + 1) for _ in range(self.r.randint(0, 2))]})
        mode = self.r.random()
        if mode < 0.35 and n <= 2:
            bs.append({'id': self.nid('b'), 'else': True, 'steps': [self.step(depth + 1) for _ in range(self.r.randint(0, 2))]})
        elif mode < 0.6 and n <= 2:
            need = self.r.sample([b['id'] for b in bs], self.r.randint(1, len(bs)))
            nb1 = {'id': self.nid('b'), 'needs': need, 'steps': [self.step(depth + 1) for _ in range(self.r.randint(0, 2))]}
            bs.append(nb1)
            if self.r.random() < 0.5:
                # a second needs branch, possibly chained on the first one (needs may run against declaration order)
                need2 = [nb1['id']] if self.r.random() < 0.7 else [self.r.choice(bs[:-1])['id']]
                bs.append({'id': self.nid('b'), 'needs': need2, 'steps': [self.step(depth + 1) for _ in range(self.r.randint(0, 1))]})
        self.r.shuffle(bs)
        return bs

    def wf(self, mixed=False):
        return {'id': 'm1', 'inputs': {'a': 0, 'b': 0}, 'steps': [self.step(1, mixed) for _ in range(self.r.randint(1, 4))]}

    def loop_wf(self):
        """the documented loop idiom: last step of a branch jumps back to the enclosing step, guard on a counter"""
        body_acts = [{'id': 'inc', 'uses': 'acts.transform.code', 'params': '$set("i", i + 1);'}]
        if self.r.random() < 0.5:
            body_acts.insert(0, {'id': 'ask', 'uses': IRQ, 'key': 'kask'})
        pre = [self.step(2) for _ in range(self.r.randint(0, 1))]
        if self.r.random() < 0.5:
            # a branch list with a needs (or else) branch that is re-entered in every iteration
            k = self.nid('q')
            waits = {'id': 'lw' + k, 'if': 'true', 'steps': [{'id': 'lws' + k, 'acts': [{'id': 'lwa' + k, 'uses': IRQ, 'key': 'klw'}]}]}
            if self.r.random() < 0.6:
                dep = {'id': 'ln' + k, 'needs': [waits['id']], 'steps': [{'id': 'lns' + k, 'acts': [{'id': 'lna' + k, 'uses': MSG, 'key': 'mln'}]}]}
            else:
                waits['if'] = 'false'
                dep = {'id': 'ln' + k, 'else': True, 'steps': [{'id': 'lns' + k, 'acts': [{'id': 'lna' + k, 'uses': IRQ, 'key': 'kle'}]}]}
            bl = [waits, dep]
            if self.r.random() < 0.5:
                bl.reverse()
            pre.append({'id': 'lb' + k, 'branches': bl})
        steps = [
            {'id': 'init', 'acts': [{'id': 'ini', 'uses': 'acts.transform.code', 'params': '$set("i", 0);'}]},
            {'id': 'cond', 'branches': [
                {'id': 'again', 'if': 'i < a', 'steps': pre + [{'id': 'body', 'next': 'cond', 'acts': body_acts}]},
                {'id': 'done', 'if': 'i >= a'},
            ]},
            {'id': 'end', 'acts': [{'id': 'fin', 'uses': MSG, 'key': 'mfin'}]},
        ]
        if self.r.random() < 0.5:
            steps[1]['branches'].reverse()
        return {'id': 'm1', 'inputs': {'a': 0, 'b': 0, 'i': 0}, 'steps': steps}


def permute(wf, rng):
    """metamorphic variant: same model with every branch list re-ordered"""
    w = json.loads(json.dumps(wf))

    def walk(steps):
        for st in steps:
            if 'branches' in st:
                rng.shuffle(st['branches'])
                for b in st['branches']:
                    walk(b.get('steps', []))
    walk(w['steps'])
    return w


def ev(c, a, b):
    return CONDF[c](a, b)


def reference(wf, a, b):
    """-> (final state per node id that is instantiated, ordering constraints)
    ordering constraint kinds: ('seq', x, y): y is created after x is terminal;
    ('needs', [xs], y): y starts running after one of xs is terminal; ('else', [xs], y): y runs after all xs terminal"""
    out = {}
    order = []

    def run_steps(steps):
        prev = None
        for st in steps:
            if prev:
                order.append(('seq', prev, st['id']))
            run_step(st)
            prev = st['id']

    def run_step(st):
        if 'if' in st and not ev(st['if'], a, b):
            out[st['id']] = 'skipped'
            return
        pa = None
        for ac in st.get('acts', []):
            if pa:
                order.append(('seq', pa, ac['id']))
            out[ac['id']] = 'skipped' if ('if' in ac and not ev(ac['if'], a, b)) else 'completed'
            pa = ac['id']
        bs = st.get('branches', [])
        ran = {}
        for br in bs:
            if 'if' in br:
                ran[br['id']] = ev(br['if'], a, b)
        ifs = dict(ran)
        for br in bs:
            if br.get('else'):
                ran[br['id']] = all(not v for v in ifs.values())
                order.append(('else', list(ifs), br['id']))
            if 'needs' in br:
                ran[br['id']] = True
                order.append(('needs', list(br['needs']), br['id']))
        for br in bs:
            if ran[br['id']]:
                out[br['id']] = 'completed'
                run_steps(br.get('steps', []))
            else:
                out[br['id']] = 'skipped'
        out[st['id']] = 'completed'

    run_steps(wf['steps'])
    out[wf['id']] = 'completed'
    return out, order


def count_irqs(wf):
    n = 0

    def walk(steps):
        nonlocal n
        for st in steps:
            n += sum(1 for x in st.get('acts', []) if x.get('uses') == IRQ)
            for b in st.get('branches', []):
                walk(b.get('steps', []))
    walk(wf['steps'])
    return n


ANSWER_ALL = [{'match': {'uses': IRQ}, 'action': 'next', 'times': 100000}]

SCHEDULES = [
    # name, runtime, responder mode, order
    ('cur-fifo', {'flavor': 'current'}, 'quiescent', 'fifo'),
    ('cur-chaos', {'flavor': 'current', 'chaos': {'max_yields': 3}}, 'quiescent', 'seeded'),
    ('cur-chaos-lifo', {'flavor': 'current', 'chaos': {'max_yields': 5}}, 'quiescent', 'lifo'),
    ('mt2-chaos', {'flavor': 'multi', 'workers': 2, 'chaos': {'max_yields': 3, 'pause_us': 40}}, 'quiescent', 'seeded'),
    ('mt4-chaos', {'flavor': 'multi', 'workers': 4, 'chaos': {'max_yields': 3, 'pause_us': 40}}, 'quiescent', 'lifo'),
    ('mt8', {'flavor': 'multi', 'workers': 8}, 'quiescent', 'fifo'),
    ('cur-inline', {'flavor': 'current', 'chaos': {'max_yields': 2}}, 'inline', 'fifo'),
    ('mt2-inline', {'flavor': 'multi', 'workers': 2, 'chaos': {'max_yields': 2}}, 'inline', 'fifo'),
]


def scenario(sid, wf, a, b, sched, seed, snap='rows', store='mem', extra_vars=None, rules=None, keep=True):
    name, rt, mode, order = sched
    rt = json.loads(json.dumps(rt))
    if 'chaos' in rt:
        rt['chaos']['seed'] = (seed * 2654435761 + 12345) % (1 << 62) | 1
    v = {'pid': 'p1', 'a': a, 'b': b}
    v.update(extra_vars or {})
    return {
        'id': sid, 'family': 'flow', 'seed': seed, 'sched': name, 'runtime': rt,
        'engine': {'store': store, 'keep_processes': keep},
        'models': [json.dumps(wf)],
        'responder': {'mode': mode, 'order': order, 'rules': rules if rules is not None else ANSWER_ALL, 'max_rounds': 400},
        'ops': [{'op': 'start', 'mid': wf['id'], 'vars': v}, {'op': 'run', 'snap': snap}, {'op': 'snapshot', 'level': snap if snap != 'none' else 'live'}],
    }


def gen_case(rng, sub='plain'):
    g = Gen(rng)
    if sub == 'loop':
        wf = g.loop_wf()
        a, b = rng.randint(0, 3), rng.randint(0, 3)
    else:
        wf = g.wf(mixed=(sub == 'mixed'))
        a, b = rng.randint(0, 3), rng.randint(0, 3)
    return wf, a, b


def nontrivial(wf):
    """a model is non-trivial when it has at least one branch list or at least three acts"""
    nb = na = 0

    def walk(steps):
        nonlocal nb, na
        for st in steps:
            na += len(st.get('acts', []))
            if st.get('branches'):
                nb += 1
                for b in st['branches']:
                    walk(b.get('steps', []))
    walk(wf['steps'])
    return nb >= 1 or na >= 3


def strip_ids(wf, rng, p=0.6):
    """variant without explicit ids on steps and acts (the engine generates them); branch ids stay because `needs` refers to them"""
    w = json.loads(json.dumps(wf))

    def walk(steps):
        for st in steps:
            if rng.random() < p and not st.get('next'):
                st.pop('id', None)
            for a in st.get('acts', []):
                if rng.random() < p:
                    a.pop('id', None)
            for b in st.get('branches', []):
                walk(b.get('steps', []))
    walk(w['steps'])
    return w
