"""Family F-timeout (C19): timeout rules on a step or an act, virtual clock, manual ticks placed before / at /
after the limits, the timed act answered before / between / after ticks.
Oracle: a rule fires at the first tick with elapsed >= limit, once, only while the task is open, and the
firing does not close the timed task."""
import collections
import json

from common import IRQ, MSG, OPEN, TERM, V, digest

UNITS = {'s': 1000, 'm': 60000, 'h': 3600000, 'd': 86400000}
DURS = ['1s', '2s', '3s', '5s', '30s', '1m', '2m', '90s', '1h', '2h', '1d', '60s', '120s', '3600s', '60m', '24h']      # (some are the same duration in another unit)


def ms(on):
    return int(on[:-1]) * UNITS[on[-1]]


class TimeoutFamily:
    name = 'timeout'

    def gen(self, rng, idx, opts):
        level = rng.choice(['step', 'act'])
        snap = opts.get('snap', 'live')
        ons = rng.sample(DURS, rng.randint(1, 3))
        # (two rules of one task may have the same duration as long as they are spelled differently: both fire)
        if rng.random() < 0.5:
            ons.sort(key=ms, reverse=rng.random() < 0.5)
        rules = []
        nested = []
        for i, on in enumerate(ons):
            steps = [{'id': f't{i}_0', 'acts': [{'id': f'ta{i}', 'uses': rng.choice([MSG, IRQ]), 'key': f'tk{i}'}]}]
            if rng.random() < 0.3:
                steps.append({'id': f't{i}_1'})
            if rng.random() < 0.3:
                # a nested timed task: the act of the timeout step carries a rule with the SAME `on` text
                steps[0]['acts'][0].update(uses=IRQ, timeout=[{'on': on, 'steps': [{'id': f'n{i}_0', 'acts': [{'id': f'na{i}', 'uses': MSG, 'key': f'nk{i}'}]}]}])
                nested.append((f'ta{i}', on, f'n{i}_0'))
            rules.append({'on': on, 'steps': steps})
        timed_act = {'id': 'a1', 'uses': IRQ, 'key': 'k1'}
        s1 = {'id': 's1', 'acts': [timed_act]}
        (s1 if level == 'step' else timed_act)['timeout'] = rules
        idless = level == 'act' and rng.random() < 0.2
        if idless:
            timed_act.pop('id')          # the engine names the timed act; the client knows it by its key
        wf = {'id': 'm1', 'steps': [s1, {'id': 's2', 'acts': [{'id': 'a2', 'uses': IRQ, 'key': 'k2'}]}]}
        target = {'pid': 'p1', 'nid': 's1', 'occ': 0} if level == 'step' else {'pid': 'p1', 'key': 'k1', 'occ': 0}
        limits = sorted({ms(o) for o in ons})
        # tick times relative to the timed task's start
        times = set()
        for L in limits:
            for k in rng.sample(['before', 'at', 'after', 'late'], rng.randint(1, 3)):
                times.add({'before': L - rng.choice([600, 900, 5000 if L > 6000 else 700]), 'at': L, 'after': L + rng.choice([600, 1500]), 'late': L * 2 + 777}[k])
        if rng.random() < 0.3:
            times = {max(limits) + 5000}            # several limits in one jump
        times = sorted(t for t in times if t > 0 and all(abs(t - L) >= 500 or t == L for L in limits))
        answer_at = rng.choice([None, None] + list(range(len(times) + 1)))
        ops = [{'op': 'start', 'mid': 'm1', 'vars': {'pid': 'p1'}}, {'op': 'quiesce'}, {'op': 'snapshot', 'level': snap}]
        bystanders = 0
        raced_at = answer_at if (answer_at is not None and answer_at < len(times) and rng.random() < opts.get('race', 0.3)) else None
        for i, t in enumerate(times):
            if raced_at == i:
                # the answer and the tick are released together from two threads
                ops += [{'op': 'advance_to', 'target': target, 'ms': t},
                        {'op': 'tick_race', 'spin_us': 0, 'calls': [{'target': {'pid': 'p1', 'key': 'k1', 'state': 'interrupted'}, 'action': rng.choice(['next', 'next', 'skip', 'error', 'submit', 'remove', 'abort']), 'options': {'ecode': 'e1'}}]},
                        {'op': 'snapshot', 'level': snap}]
                continue
            if answer_at == i:
                ops += [{'op': 'act', 'target': {'pid': 'p1', 'key': 'k1', 'state': 'interrupted'}, 'action': rng.choice(['next', 'next', 'skip', 'error', 'submit', 'remove']), 'options': {'ecode': 'e1'}}, {'op': 'quiesce'}, {'op': 'snapshot', 'level': snap}]
            if opts.get('store') == 'sqlite' and rng.random() < 0.4:
                # a new engine on the same database takes over; the client's next look at the task loads the process
                ops += [{'op': 'restart'}, {'op': 'quiesce'}]
            ops += [{'op': 'advance_to', 'target': target, 'ms': t}]
            gone = False
            if opts.get('store') == 'sqlite':
                if rng.random() < 0.2:
                    ops += [{'op': 'restart'}, {'op': 'quiesce'}]     # ... or nobody looks at it before the tick
                    gone = True
            elif opts.get('evict', True) and rng.random() < 0.35:
                # the process is not in the cache when the tick comes: dropped by a full LRU (its instance is alive: the
                # rules go on counting), or forgotten altogether (like after a restart: the known finding)
                ops.append({'op': 'lru_drop', 'pid': 'p1'} if rng.random() < 0.5 else {'op': 'evict'})
                gone = ops[-1]['op'] == 'evict'
            if gone and rng.random() < 0.5:
                # ... but another process ends before the tick: the engine then fills its cache with the processes
                # that wait in the store, the timed one among them
                bystanders += 1
                ops += [{'op': 'start', 'mid': 'mt', 'vars': {'pid': f'q{bystanders}'}}, {'op': 'quiesce'}]
            ops += [{'op': 'tick'}, {'op': 'snapshot', 'level': snap}]
        if answer_at == len(times):
            ops += [{'op': 'act', 'target': {'pid': 'p1', 'key': 'k1', 'state': 'interrupted'}, 'action': 'next'}, {'op': 'quiesce'}]
        for (_, on_, _) in nested:
            ops += [{'op': 'advance', 'ms': ms(on_) + 700}, {'op': 'tick'}, {'op': 'snapshot', 'level': snap}]
        ops += [{'op': 'advance', 'ms': 1000}, {'op': 'tick'}, {'op': 'tick'}, {'op': 'snapshot', 'level': snap}]
        rt = rng.choice([{'flavor': 'current'}, {'flavor': 'current', 'chaos': {'max_yields': 3, 'seed': rng.randrange(1, 1 << 40)}}, {'flavor': 'multi', 'workers': 2}])
        if raced_at is not None:
            rt = {'flavor': 'multi', 'workers': 2, 'chaos': {'max_yields': 2, 'pause_us': rng.choice([0, 30, 100, 300]), 'seed': rng.randrange(1, 1 << 40)}}
        sc = {'id': '', 'family': 'timeout', 'sched': rt['flavor'] + ('-raced' if raced_at is not None else ''), 'runtime': rt, 'engine': {'store': opts.get('store', 'mem'), 'keep_processes': True}, 'models': [json.dumps(wf)], 'responder': {'rules': []}, 'ops': ops}
        if bystanders:
            sc['models'].append(json.dumps({'id': 'mt', 'steps': [{'id': 'st', 'acts': [{'id': 'at', 'uses': MSG, 'key': 'mt'}]}]}))
        if opts.get('store') == 'sqlite':
            sc['watchdog_ms'] = 90000
            sc['sched'] += '-sqlite'
        return {'scenarios': [sc], 'meta': {'idless': idless, 'wf': wf, 'level': level, 'ons': ons, 'times': times, 'answer_at': answer_at, 'nested': nested}, 'digest': digest([wf, times, answer_at]), 'nontrivial': True}

    def judge(self, c, opts, obs):
        h, sc, m = c['hist'][0], c['scenarios'][0], c['meta']
        out = []
        main_nid = 's1' if m['level'] == 'step' else 'a1'
        if m.get('idless'):
            d0 = [d for d in h.delivers if d['key'] == 'k1' and d['state'] == 'created']
            main_nid = h.create_by[(d0[0]['pid'], d0[0]['tid'])]['nid'] if d0 and (d0[0]['pid'], d0[0]['tid']) in h.create_by else 'a1'
        timed = [(main_nid, m['level'], m['ons'], {f't{i}_0': on for i, on in enumerate(m['ons'])})]
        for (tn, on_, fs) in m.get('nested') or []:
            timed.append((tn, 'nested-act', [on_], {fs: on_}))
        for nid, lvl, ons, first_step in timed:
            out += self.judge_task(h, sc, dict(m, level=lvl), nid, ons, first_step, obs)
        return out

    def judge_task(self, h, sc, m, nid, ons, first_step, obs):
        out = []
        sid = sc['id']
        fired = collections.defaultdict(list)     # rule -> [create seq]
        for e in h.creates:
            if e['nid'] in first_step:
                fired[first_step[e['nid']]].append(e['seq'])
        for on, l in fired.items():
            if len(l) > 1:
                out.append(V('C19', 'rule-fired-twice', m['level'], f"rule {on} started its steps {len(l)} times", scenario=sid))
        # walk the ops: state of the timed task before each tick comes from the preceding snapshot
        ops = h.ops
        prev_seq = 0
        last_snap = None
        done = set()
        for o in ops:
            if o['op'] == 'snapshot':
                last_snap = o['res']
            if o['op'] in ('tick', 'tick_race'):
                lo = prev_seq
                hi = o['seq']
                raced = o['op'] == 'tick_race'
                # a racing client call that was accepted inside this window, and the moment it ended the timed task
                ended_in = [e['seq'] for e in h.states if e['nid'] == nid and lo < e['seq'] < hi and e['new'] in TERM and e['old'] not in TERM] if raced else []
                if raced:
                    obs['c19.ticks-raced-with-the-answer'] += 1
                tb, ta = o['res']['t_before'], o['res']['t_after']
                task = None
                first_start = None
                for _, _, snap in h.snapshots():
                    for p in snap.get('live') or []:
                        for t in p['tasks']:
                            if t['nid'] == nid:
                                task = dict(t)
                                if not first_start and t.get('start_time'):
                                    first_start = t['start_time']
                if task is not None and first_start:
                    task['start_time'] = first_start      # when the task opened, as first seen (a reload must not move it)
                born = [e['seq'] for e in h.creates if e['nid'] == nid]
                if task is not None and (not born or born[0] > lo or not task.get('start_time')):
                    task = None        # not created yet at this tick, or closed before it was ever initialised (no start time)
                if task is not None:
                    # the state at the beginning of this tick comes from the transition trace, not from a (possibly older) dump
                    st_ = [e['new'] for e in h.states if e['nid'] == nid and e['seq'] < lo]
                    task['state'] = st_[-1] if st_ else 'none'
                root_ = [e['new'] for e in h.states if e['tid'] == '$' and e['pid'] == 'p1' and e['seq'] < lo]
                proc_running = bool(root_) and root_[-1] == 'running'
                if raced and any(e['tid'] == '$' and e['pid'] == 'p1' and lo < e['seq'] < hi and e['new'] in TERM for e in h.states):
                    proc_running = False          # the racing call ended the process inside this window: nothing has to fire
                if task is not None:
                    s = task['start_time']
                    for on in ons:
                        L = ms(on)
                        now_fired = [x for x in fired.get(on, []) if lo < x < hi]
                        obs['c19.rule-tick-decisions'] += 1
                        if ended_in and [x for x in now_fired if x > ended_in[0]]:
                            out.append(V('C19', 'fired-after-task-ended', f"{m['level']}:raced", f"rule {on} started its steps after the racing client call had ended the timed {m['level']}", scenario=sid))
                            continue
                        if task['state'] in TERM:
                            if now_fired:
                                out.append(V('C19', 'fired-after-task-ended', f"{m['level']}:{task['state']}", f"rule {on} fired at a tick although the timed {m['level']} had ended ({task['state']})", scenario=sid))
                            continue
                        if on in done:
                            continue
                        must = tb - s >= L and proc_running
                        must_not = ta - s < L
                        if now_fired:
                            done.add(on)
                            obs['c19.firings'] += 1
                            prior = [op_ for op_ in sc['ops'][:o['i']] if op_['op'] in ('evict', 'restart', 'act', 'advance_to', 'start')]
                            if len(prior) >= 2 and prior[-1]['op'] == 'start' and prior[-1].get('mid') == 'mt' and prior[-2]['op'] in ('evict', 'restart'):
                                obs['c19.firings-after-the-end-of-another-process-restored-the-forgotten-one'] += 1
                            if must_not:
                                others = sorted(ms(x) for x in ons if ms(x) <= ta - s)
                                out.append(V('C19', 'fired-early', f"{m['level']}:{'another-rule-due' if others else 'nothing-due'}", f"rule {on} fired after {ta - s} ms (limit {L} ms)", scenario=sid))
                        elif must and ended_in:
                            obs['c19.raced-answer-came-first'] += 1
                        elif must:
                            cached = True
                            for op_ in sc['ops'][:o['i']]:
                                if op_['op'] in ('evict', 'restart'):
                                    cached = False          # a new engine does not load running processes by itself either
                                elif op_['op'] in ('act', 'advance_to'):
                                    cached = True       # looking the task up / acting on it reloads the process
                                elif op_['op'] == 'start' and op_.get('mid') == 'mt':
                                    cached = True       # the end of another process: waiting processes come back from the store
                            out.append(V('C19', 'not-fired-when-due', m['level'] + ('' if cached else ':process-not-cached-at-tick'), f"rule {on} did not fire at a tick {tb - s} ms after the task opened (limit {L} ms, task {task['state']})", scenario=sid))
                        else:
                            obs['c19.not-due'] += 1
                    # a firing does not close the timed task
                    closed = [e for e in h.states if e['nid'] == nid and lo < e['seq'] < hi and e['new'] in TERM and e['old'] not in TERM]
                    if closed and task['state'] in OPEN and not raced:
                        out.append(V('C19', 'tick-closed-timed-task', f"{m['level']}:{closed[0]['new']}", f"the timed {m['level']} went {closed[0]['old']} -> {closed[0]['new']} during a tick", scenario=sid))
            prev_seq = o['seq']
        # firings outside ticks (the steps of a rule may only start at a tick)
        tick_windows = []
        ps = 0
        for o in ops:
            if o['op'] in ('tick', 'tick_race'):
                tick_windows.append((ps, o['seq']))
            ps = o['seq']
        for on, l in fired.items():
            for x in l:
                if not any(a < x < b for a, b in tick_windows):
                    out.append(V('C19', 'fired-outside-tick', m['level'], f"rule {on} started its steps outside any tick", scenario=sid))
        return out
