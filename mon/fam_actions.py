"""Family F-actions: the ten client actions aimed at every kind of target (matrix), and racing identical /
different actions from 2..8 OS threads (twins).  Own oracle: C05 (admission, rejected => no change,
at-most-once).  The histories also feed the cross-cutting monitors (C02, C03, C08)."""
import collections
import json

from common import IRQ, MSG, OPEN, TERM, TERMINAL_ACTIONS, V, digest

ACTIONS = ['next', 'submit', 'back', 'cancel', 'abort', 'skip', 'error', 'push', 'remove', 'set_process_vars']


def irq(i, key, **kw):
    a = {'id': i, 'uses': IRQ, 'key': key}
    a.update(kw)
    return a


def models(rng):
    """-> (kind, workflow)"""
    kind = rng.choice(['linear', 'linear', 'branches', 'branches', 'outputs', 'generator', 'catch', 'nested'])
    if kind == 'linear':
        n = rng.randint(1, 3)
        wf = {'id': 'm1', 'steps': [
            {'id': 's1', 'acts': [irq(f'a{i}', f'k{i}') for i in range(1, n + 1)]},
            {'id': 's2', 'acts': [irq('a4', 'k4')]},
            {'id': 's3', 'acts': [{'id': 'a5', 'uses': MSG, 'key': 'm5'}]}]}
    elif kind == 'branches':
        bs = [{'id': 'b1', 'if': 'true', 'steps': [{'id': 's11', 'acts': [irq('a1', 'k1'), irq('a2', 'k2')]}]},
              {'id': 'b2', 'if': 'true', 'steps': [{'id': 's21', 'acts': [irq('a3', 'k3')]}, {'id': 's22', 'acts': [irq('a6', 'k6')]}]}]
        r = rng.random()
        if r < 0.3:
            bs.append({'id': 'b3', 'else': True, 'steps': [{'id': 's31', 'acts': [irq('a7', 'k7')]}]})
        elif r < 0.6:
            bs.append({'id': 'b3', 'needs': ['b1'], 'steps': [{'id': 's31', 'acts': [irq('a7', 'k7')]}]})
        wf = {'id': 'm1', 'steps': [{'id': 's1', 'branches': bs}, {'id': 's2', 'acts': [irq('a4', 'k4')]}]}
    elif kind == 'outputs':
        wf = {'id': 'm1', 'inputs': {'x': 0}, 'outputs': {'x': None}, 'steps': [
            {'id': 's1', 'acts': [irq('a1', 'k1', outputs={'x': None}), irq('a2', 'k2', outputs={'y': None, 'z': 5, 'w': '{{ x }}'})]},
            {'id': 's2', 'acts': [irq('a4', 'k4')]}]}
    elif kind == 'generator':
        g = rng.choice(['acts.core.parallel', 'acts.core.sequence'])
        wf = {'id': 'm1', 'steps': [
            {'id': 's1', 'acts': [{'id': 'g1', 'uses': g, 'params': {'in': ['u', 'v'], 'acts': [{'uses': IRQ, 'key': 'k1'}]}}]},
            {'id': 's2', 'acts': [irq('a4', 'k4')]}]}
    elif kind == 'catch':
        wf = {'id': 'm1', 'steps': [
            {'id': 's1', 'catches': [{'on': 'e2', 'steps': [{'id': 'c2', 'acts': [irq('a8', 'k8')]}]}],
             'acts': [irq('a1', 'k1', catches=[{'on': 'e1', 'steps': [{'id': 'c1', 'acts': [irq('a9', 'k9')]}]}]), irq('a2', 'k2')]},
            {'id': 's2', 'acts': [irq('a4', 'k4')]}]}
    else:
        wf = {'id': 'm1', 'steps': [
            {'id': 's1', 'branches': [
                {'id': 'b1', 'if': 'true', 'steps': [{'id': 's11', 'branches': [
                    {'id': 'b11', 'if': 'true', 'steps': [{'id': 's111', 'acts': [irq('a1', 'k1')]}]},
                    {'id': 'b12', 'if': 'true', 'steps': [{'id': 's121', 'acts': [irq('a2', 'k2')]}]}]}]},
                {'id': 'b2', 'if': 'true', 'steps': [{'id': 's21', 'acts': [irq('a3', 'k3')]}]}]},
            {'id': 's2', 'acts': [irq('a4', 'k4')]}]}
    return kind, wf


def all_ids(wf):
    from monitors import walk_nodes
    return [(n.get('id'), kind) for n, kind, _ in walk_nodes(wf) if n.get('id')]


def options_for(rng, action, wf, valid_bias=0.7):
    good = rng.random() < valid_bias
    if action == 'error':
        return {'ecode': rng.choice(['e1', 'e2', 'e9']), 'message': 'boom'} if good else {'message': 'no code'}
    if action == 'back':
        steps = [i for i, k in all_ids(wf) if k == 'step']
        return {'to': rng.choice(steps)} if good else rng.choice([{}, {'to': 'nosuchstep'}])
    if action == 'push':
        return {'uses': IRQ, 'key': 'kpush', 'id': 'apush%d' % rng.randint(0, 99)} if good else {'key': 'kpush'}
    if action == 'set_process_vars':
        return {'pv': rng.randint(1, 9)}
    r = rng.random()
    if r < 0.4:
        return {}
    if r < 0.7:
        return {'x': rng.randint(10, 99)}
    if r < 0.8:
        return {'x': 1, 'y': 2, 'z': 3, 'w': 4, '__p': 4}
    if r < 0.9:
        return {'y': 1, 'z': 2}
    return {'y': 1}


def target_for(rng, wf):
    ids = all_ids(wf)
    r = rng.random()
    if r < 0.45:
        return {'pid': 'p1', 'kind': 'act', 'state': 'interrupted', 'occ': rng.choice([0, 0, 1, -1])}
    if r < 0.65:
        return {'pid': 'p1', 'kind': 'act', 'state': rng.choice(['completed', 'completed', 'skipped', 'aborted', 'error', 'submitted', 'removed', 'backed', 'cancelled']), 'occ': rng.choice([0, -1])}
    if r < 0.8:
        i, k = rng.choice(ids)
        return {'pid': 'p1', 'nid': i, 'occ': rng.choice([0, -1])}
    if r < 0.87:
        return {'pid': 'p1', 'kind': 'act', 'state': 'running', 'occ': 0}
    if r < 0.93:
        return {'pid': 'p1', 'tid': 'nosuchtid'}
    return {'pid': 'nosuchpid', 'tid': '$'}


def summarize(snap):
    """what 'no change' compares: live tasks (state, prev, data), task/proc rows, message rows"""
    live = {}
    for p in snap.get('live') or []:
        live[p['pid']] = {'state': p['state'], 'env': p.get('env'), 'tasks': {t['tid']: (t['nid'], t['state'], t['prev'], json.dumps(t.get('data'), sort_keys=True), json.dumps(t.get('err'))) for t in p['tasks']}}
    rows = {r['id']: (r['state'], r.get('prev'), r.get('data'), r.get('err')) for r in (snap.get('tasks') or [])} if isinstance(snap.get('tasks'), list) else None
    prows = {r['id']: (r['state'], r.get('env'), r.get('err')) for r in (snap.get('procs') or [])} if isinstance(snap.get('procs'), list) else None
    return {'live': live, 'rows': rows, 'prows': prows, 'trace_len': snap.get('trace_len')}


class ActionsFamily:
    name = 'actions'

    def gen(self, rng, idx, opts):
        sub = opts.get('sub', 'matrix')
        if sub == 'twins':
            return self.gen_twins(rng, idx, opts)
        if sub == 'duel':
            return self.gen_duel(rng, idx, opts)
        if sub == 'b2b':
            return self.gen_b2b(rng, idx, opts)
        if sub == 'midflight':
            return self.gen_midflight(rng, idx, opts)
        if sub == 'composite':
            return self.gen_composite(rng, idx, opts)
        kind, wf = models(rng)
        ops = [{'op': 'start', 'mid': 'm1', 'vars': {'pid': 'p1'}}, {'op': 'quiesce'}, {'op': 'snapshot', 'level': 'rows'}]
        n = rng.randint(4, 10)
        for _ in range(n):
            action = rng.choice(ACTIONS if rng.random() < 0.6 else ['next', 'next', 'submit', 'remove', 'skip', 'abort', 'error'])
            ops += [{'op': 'act', 'target': target_for(rng, wf), 'action': action, 'options': options_for(rng, action, wf)}, {'op': 'quiesce'}, {'op': 'snapshot', 'level': 'rows'}]
        rt = rng.choice([{'flavor': 'current'}, {'flavor': 'current', 'chaos': {'max_yields': 3, 'seed': rng.randrange(1, 1 << 40)}}, {'flavor': 'multi', 'workers': 2, 'chaos': {'max_yields': 2, 'seed': rng.randrange(1, 1 << 40)}}])
        keep = rng.random() < opts.get('keep', 0.8)     # default configuration: an ended process is removed, every later action must be refused
        if keep:
            ops += [{'op': 'probe_acts', 'pid': 'p1', 'evict': True}, {'op': 'quiesce'}]
        sc = {'id': '', 'family': 'actions', 'sched': rt['flavor'], 'seed': rng.randrange(1 << 30), 'runtime': rt, 'engine': {'store': opts.get('store', 'mem'), 'keep_processes': keep},
              'models': [json.dumps(wf)], 'responder': {'rules': []}, 'ops': ops}
        if opts.get('mirror'):
            # two acknowledging clients with the same (empty) filter: each of them gets every message
            sc['channels'] = [{'id': 'main', 'ack': True}, {'id': 'second', 'ack': True, 'events': False}]
            sc['sched'] += '-twoack-' + sc['engine']['store']
            if sc['engine']['store'] == 'sqlite':
                sc['watchdog_ms'] = 60000
        return {'scenarios': [sc], 'meta': {'wf': wf, 'kind': kind, 'sub': 'matrix'}, 'digest': digest([wf, ops]), 'nontrivial': True}

    def gen_twins(self, rng, idx, opts):
        """k identical actions on one open act, released by a barrier; run B = the same with one thread"""
        nacts = rng.randint(1, 3)
        pos = rng.randint(1, nacts)          # which act is raced (the last one creates the successor step)
        wf = {'id': 'm1', 'steps': [{'id': 's1', 'acts': [irq(f'a{i}', f'k{i}') for i in range(1, nacts + 1)]}, {'id': 's2', 'acts': [irq('a4', 'k4')]}, {'id': 's3'}]}
        action = rng.choice(['next', 'next', 'next', 'submit', 'skip', 'remove', 'abort', 'error'])
        options = {'ecode': 'e1', 'message': 'x'} if action == 'error' else {}
        k = rng.choice([2, 2, 3, 4, 8])
        workers = rng.choice([1, 2, 4])
        pause = rng.choice([0, 0, 30, 120])

        def build(threads):
            ops = [{'op': 'start', 'mid': 'm1', 'vars': {'pid': 'p1'}}, {'op': 'quiesce'}]
            for i in range(1, pos):
                ops += [{'op': 'act', 'target': {'pid': 'p1', 'key': f'k{i}', 'state': 'interrupted'}, 'action': 'next'}, {'op': 'quiesce'}]
            ops += [{'op': 'snapshot', 'level': 'live'},
                    {'op': 'twins', 'target': {'pid': 'p1', 'key': f'k{pos}', 'state': 'interrupted'}, 'action': action, 'options': options, 'threads': threads},
                    {'op': 'quiesce'}, {'op': 'snapshot', 'level': 'live'}, {'op': 'run'}, {'op': 'snapshot', 'level': 'live'}]
            rt = {'flavor': 'multi', 'workers': workers, 'chaos': {'max_yields': 2, 'pause_us': pause, 'seed': rng.randrange(1, 1 << 40)}}
            return {'id': '', 'family': 'actions', 'sched': f'mt{workers}', 'seed': rng.randrange(1 << 30), 'runtime': rt, 'engine': {'store': 'mem', 'keep_processes': True},
                    'models': [json.dumps(wf)], 'responder': {'mode': 'quiescent', 'rules': [{'match': {'uses': IRQ}, 'action': 'next', 'times': 100}]}, 'ops': ops}
        return {'scenarios': [build(k), build(1)], 'meta': {'wf': wf, 'sub': 'twins', 'action': action, 'threads': k, 'pos': pos, 'nacts': nacts},
                'digest': digest([nacts, pos, action, k, workers, pause]), 'nontrivial': True}

    def gen_b2b(self, rng, idx, opts):
        """two or three actions issued back to back WITHOUT waiting for quiescence: the work scheduled by the first
        (successor tasks still in the queue, messages not yet dispatched) is in flight when the next one arrives;
        deterministic on a current-thread runtime"""
        if rng.random() < opts.get('tail', 0.35):
            return self.gen_b2b_tail(rng, idx, opts)
        kind, wf = models(rng)
        midflight = rng.random() < opts.get('midflight', 0.3)
        keep = rng.random() < opts.get('keep', 0.8)        # default configuration: rows of an ended process are removed while queued work may still run
        ops = [{'op': 'start', 'mid': 'm1', 'vars': {'pid': 'p1'}}, {'op': 'quiesce'}]
        for _ in range(rng.randint(1, 3)):
            for j in range(rng.randint(2, 3)):
                action = rng.choice(['next', 'next', 'abort', 'skip', 'error', 'submit', 'remove', 'back', 'push'])
                tgt = {'pid': 'p1', 'kind': 'act', 'state': 'interrupted', 'occ': rng.choice([0, 0, 1, -1])} if action != 'push' else {'pid': 'p1', 'kind': 'step', 'state': 'running', 'occ': rng.choice([0, -1])}
                ops.append({'op': 'act', 'target': tgt, 'action': action, 'options': options_for(rng, action, wf, 0.9)})
                if midflight and rng.random() < 0.5:
                    # the process leaves the cache while what the action scheduled is still queued; the client's next
                    # look at it (or its next action) loads it again before, or after, that work has run
                    ops.append({'op': 'lru_drop', 'pid': 'p1'})
                    if rng.random() < 0.5:
                        ops.append({'op': 'yield', 'n': rng.randint(1, 4)})
                    if rng.random() < 0.6:
                        ops.append({'op': 'touch', 'pid': 'p1'})
                if rng.random() < 0.4:
                    # the scheduler takes a few turns (not all it needs) before the next action arrives
                    ops.append({'op': 'yield', 'n': rng.randint(1, 6)})
            ops += [{'op': 'quiesce'}, {'op': 'snapshot', 'level': 'rows'}]
        ops += [{'op': 'run'}, {'op': 'snapshot', 'level': 'rows'}, {'op': 'probe_acts', 'pid': 'p1', 'evict': True}, {'op': 'quiesce'}]
        rt = rng.choice([{'flavor': 'current'}, {'flavor': 'current'}, {'flavor': 'current', 'chaos': {'max_yields': 3, 'seed': rng.randrange(1, 1 << 40)}}, {'flavor': 'multi', 'workers': 2, 'chaos': {'max_yields': 2, 'seed': rng.randrange(1, 1 << 40)}}])
        sc = {'id': '', 'family': 'actions', 'sched': 'b2b-' + rt['flavor'] + ('-midflight' if midflight else '') + ('' if keep else '-nokeep'), 'seed': rng.randrange(1 << 30), 'runtime': rt, 'engine': {'store': 'mem', 'keep_processes': keep},
              'models': [json.dumps(wf)], 'responder': {'mode': 'quiescent', 'rules': [{'match': {'uses': IRQ}, 'action': 'next', 'times': 100}]}, 'ops': ops}
        return {'scenarios': [sc], 'meta': {'wf': wf, 'kind': kind, 'sub': 'b2b'}, 'digest': digest([wf, ops]), 'nontrivial': True}

    def gen_midflight(self, rng, idx, opts):
        """the process leaves the cache right after a client action, while what that action scheduled is still queued, and
        is looked up again by the client before (or after) the queued work has run; then everything is answered.
        mode lru: only the LRU entry goes (what a full cache does at any moment): the engine must go on with the ONE
        instance of the process, whatever the model.  mode forget: no instance is remembered either, a second one is
        loaded from the store; the engine copies every task event into the cached process, which keeps simple flows
        (no parallel branches) correct, and that is what this mode watches"""
        mode = opts.get('mode') or rng.choice(['lru', 'forget'])
        shape = rng.choice(['linear', 'linear', 'branches', 'catch'] if mode == 'lru' else ['linear', 'linear', 'catch'])
        if shape == 'linear':
            n = rng.randint(1, 2)
            wf = {'id': 'm1', 'steps': [{'id': 's1', 'acts': [irq(f'a{i}', f'k{i}') for i in range(1, n + 1)]}, {'id': 's2', 'acts': [irq('a4', 'k4')]}, {'id': 's3', 'acts': [irq('a6', 'k6')]},
                                        {'id': 's4', 'acts': [{'id': 'a5', 'uses': MSG, 'key': 'm5'}]}]}
        elif shape == 'branches':
            wf = {'id': 'm1', 'steps': [{'id': 's1', 'branches': [{'id': 'b1', 'if': 'true', 'steps': [{'id': 's11', 'acts': [irq('a1', 'k1')]}, {'id': 's12', 'acts': [irq('a2', 'k2')]}]},
                                                                {'id': 'b2', 'if': 'true', 'steps': [{'id': 's21', 'acts': [irq('a3', 'k3')]}]}]}, {'id': 's2', 'acts': [irq('a4', 'k4')]}]}
        else:
            wf = {'id': 'm1', 'steps': [{'id': 's1', 'acts': [irq('a1', 'k1', catches=[{'on': 'e1', 'steps': [{'id': 'c1', 'acts': [irq('a9', 'k9')]}]}]), irq('a2', 'k2')]}, {'id': 's2', 'acts': [irq('a4', 'k4')]}]}
        first = rng.choice(['next', 'next', 'next', 'skip', 'submit']) if shape != 'catch' else rng.choice(['error', 'error', 'next'])
        ops = [{'op': 'start', 'mid': 'm1', 'vars': {'pid': 'p1'}}, {'op': 'quiesce'},
               {'op': 'act', 'target': {'pid': 'p1', 'key': 'k1', 'state': 'interrupted'}, 'action': first, 'options': {'ecode': 'e1', 'message': 'x'} if first == 'error' else {}}]
        if rng.random() < 0.4:
            ops.append({'op': 'yield', 'n': rng.randint(1, 3)})
        ops.append({'op': 'lru_drop' if mode == 'lru' else 'evict', 'pid': 'p1'})
        if rng.random() < 0.5:
            ops.append({'op': 'yield', 'n': rng.randint(1, 3)})
        if rng.random() < 0.7:
            ops.append({'op': 'touch', 'pid': 'p1'})
        closing = rng.choice([None, 'abort', 'late-abort', 'again-late'])
        ops += [{'op': 'quiesce'}, {'op': 'snapshot', 'level': 'rows'}]
        one_more = [{'op': 'act', 'target': {'pid': 'p1', 'kind': 'act', 'state': 'interrupted', 'occ': 0}, 'action': 'next', 'options': {}}, {'op': 'quiesce'}, {'op': 'snapshot', 'level': 'rows'}]
        if closing == 'abort':
            ops += [{'op': 'act', 'target': {'pid': 'p1', 'kind': 'act', 'state': 'interrupted', 'occ': -1}, 'action': 'abort', 'options': {}}, {'op': 'quiesce'}, {'op': 'snapshot', 'level': 'rows'}]
        elif closing == 'late-abort':
            ops += one_more + [{'op': 'act', 'target': {'pid': 'p1', 'kind': 'act', 'state': 'interrupted', 'occ': -1}, 'action': 'abort', 'options': {}}, {'op': 'quiesce'}, {'op': 'snapshot', 'level': 'rows'}]
        elif closing == 'again-late':
            # the act answered first has ended by now (also when its catch steps had to finish first): refused
            ops += one_more + [{'op': 'act', 'target': {'pid': 'p1', 'key': 'k1'}, 'action': 'next', 'options': {}}, {'op': 'quiesce'}, {'op': 'snapshot', 'level': 'rows'}]
        ops += [{'op': 'run'}, {'op': 'snapshot', 'level': 'rows'}, {'op': 'probe_acts', 'pid': 'p1', 'evict': True}, {'op': 'quiesce'}]
        rt = rng.choice([{'flavor': 'current'}, {'flavor': 'current'}, {'flavor': 'current', 'chaos': {'max_yields': 2, 'seed': rng.randrange(1, 1 << 40)}}])
        sc = {'id': '', 'family': 'actions', 'sched': f'midflight-{mode}-' + rt['flavor'], 'seed': rng.randrange(1 << 30), 'runtime': rt, 'engine': {'store': 'mem', 'keep_processes': True},
              'models': [json.dumps(wf)], 'responder': {'mode': 'quiescent', 'rules': [{'match': {'key': 'k1'}, 'action': 'none', 'times': 100}, {'match': {'uses': IRQ}, 'action': 'next', 'times': 100}]}, 'ops': ops}
        return {'scenarios': [sc], 'meta': {'wf': wf, 'kind': shape, 'sub': 'midflight', 'first': first, 'closing': closing, 'mode': mode}, 'digest': digest([wf, ops]), 'nontrivial': True}

    def gen_b2b_tail(self, rng, idx, opts):
        """the action that completes a step (its successor step goes into the queue) is followed at once by an action
        on an act that is still open below that step (an act pushed into it at run time)"""
        if rng.random() < 0.5:
            # an action in one branch makes a later step of that branch create its own branches; a few scheduler turns
            # later (those branch tasks exist but have not been initialized) an action arrives in the other branch
            inner = {'id': 's12', 'branches': [{'id': 'b121', 'if': 'true', 'steps': [{'id': 's1211', 'acts': [irq('a6', 'k6')]}]}, {'id': 'b122', 'if': rng.choice(['true', 'false']), 'steps': [{'id': 's1221', 'acts': [irq('a7', 'k7')]}]}]}
            if rng.random() < 0.3:
                inner['branches'].append({'id': 'b123', 'else': True, 'steps': [{'id': 's1231', 'acts': [irq('a8', 'k8')]}]})
            wf = {'id': 'm1', 'steps': [{'id': 's1', 'branches': [{'id': 'b1', 'if': 'true', 'steps': [{'id': 's11', 'acts': [irq('a1', 'k1')]}, inner]}, {'id': 'b2', 'if': 'true', 'steps': [{'id': 's21', 'acts': [irq('a3', 'k3')]}]}]},
                                        {'id': 's2', 'acts': [irq('a4', 'k4')]}]}
            action = rng.choice(['abort', 'abort', 'abort', 'abort', 'back', 'skip', 'error', 'remove', 'next', 'cancel'])
            options = {'to': rng.choice(['s1', 's21'])} if action == 'back' else options_for(rng, action, wf, 0.9)
            ops = [{'op': 'start', 'mid': 'm1', 'vars': {'pid': 'p1'}}, {'op': 'quiesce'},
                   {'op': 'act', 'target': {'pid': 'p1', 'key': 'k1', 'state': 'interrupted'}, 'action': rng.choice(['next', 'next', 'skip', 'submit']), 'options': {}},
                   {'op': 'yield', 'n': rng.randint(0, 5)},
                   {'op': 'act', 'target': {'pid': 'p1', 'key': 'k3', 'state': 'interrupted'}, 'action': action, 'options': options},
                   {'op': 'quiesce'}, {'op': 'snapshot', 'level': 'rows'}, {'op': 'run'}, {'op': 'snapshot', 'level': 'rows'}, {'op': 'probe_acts', 'pid': 'p1', 'evict': True}, {'op': 'quiesce'}]
            # seeded yields in the queue senders: the scheduler gets through a part of its work per turn
            rt = {'flavor': 'current', 'chaos': {'max_yields': rng.choice([1, 2, 2, 3]), 'seed': rng.randrange(1, 1 << 40)}}
            sc = {'id': '', 'family': 'actions', 'sched': 'b2b-late-branches-' + rt['flavor'], 'seed': rng.randrange(1 << 30), 'runtime': rt, 'engine': {'store': 'mem', 'keep_processes': True},
                  'models': [json.dumps(wf)], 'responder': {'mode': 'quiescent', 'rules': [{'match': {'uses': IRQ}, 'action': 'next', 'times': 100}]}, 'ops': ops}
            return {'scenarios': [sc], 'meta': {'wf': wf, 'kind': 'branches', 'sub': 'b2b'}, 'digest': digest([wf, ops]), 'nontrivial': True}
        n = rng.randint(1, 3)
        outs = rng.random() < 0.5          # the acts hand declared outputs to the step, which stays open while a pushed act is
        wf = {'id': 'm1', 'steps': [{'id': 's1', 'acts': [irq(f'a{i}', f'k{i}', outputs={f'o{i}': None}) if outs else irq(f'a{i}', f'k{i}') for i in range(1, n + 1)]}, {'id': 's2', 'acts': [irq('a4', 'k4')]}, {'id': 's3', 'acts': [{'id': 'a5', 'uses': MSG, 'key': 'm5'}]}]}
        ops = [{'op': 'start', 'mid': 'm1', 'vars': {'pid': 'p1'}}, {'op': 'quiesce'}]
        pushed = rng.randint(1, 2)
        for j in range(pushed):
            ops += [{'op': 'act', 'target': {'pid': 'p1', 'kind': 'step', 'state': 'running', 'occ': 0}, 'action': 'push', 'options': {'uses': IRQ, 'key': f'kpush{j}', 'id': f'apush{j}'}}, {'op': 'quiesce'}]
        for i in range(1, n):
            ops += [{'op': 'act', 'target': {'pid': 'p1', 'key': f'k{i}', 'state': 'interrupted'}, 'action': rng.choice(['next', 'next', 'skip', 'submit']), 'options': {f'o{i}': 10 + i} if outs else {}}, {'op': 'quiesce'}, {'op': 'snapshot', 'level': 'rows'}]
        # the acts that are open now (the last declared one and the pushed ones) are closed back to back in any order
        keys = [f'k{n}'] + [f'kpush{j}' for j in range(pushed)]
        if rng.random() < 0.5:
            keys = keys[1:] + keys[:1]          # the pushed acts first: closing them can complete the step
        else:
            rng.shuffle(keys)
        # the last of them is sent back to its own step now and then: that step may have ended a moment ago
        back_last = rng.random() < 0.25
        for key in keys:
            if back_last and key == keys[-1]:
                ops.append({'op': 'act', 'target': {'pid': 'p1', 'key': key, 'state': 'interrupted'}, 'action': 'back', 'options': {'to': 's1'}})
                continue
            if key.startswith('kpush'):
                action = rng.choice(['skip', 'skip', 'next', 'next', 'remove', 'submit', 'submit', 'error', 'abort', 'back', 'cancel'])
            else:
                action = rng.choice(['skip', 'skip', 'skip', 'skip', 'next', 'next', 'remove', 'submit', 'error', 'abort', 'back', 'cancel'])
            o_ = options_for(rng, action, wf, 0.9)
            if outs and key == f'k{n}':
                o_ = dict(o_, **{f'o{n}': 10 + n})
            ops.append({'op': 'act', 'target': {'pid': 'p1', 'key': key, 'state': 'interrupted'}, 'action': action, 'options': o_})
            if rng.random() < 0.3:
                ops.append({'op': 'yield', 'n': rng.randint(1, 6)})
        ops += [{'op': 'quiesce'}, {'op': 'snapshot', 'level': 'rows'}, {'op': 'run'}, {'op': 'snapshot', 'level': 'rows'}, {'op': 'probe_acts', 'pid': 'p1', 'evict': True}, {'op': 'quiesce'}]
        rt = rng.choice([{'flavor': 'current'}, {'flavor': 'current'}, {'flavor': 'multi', 'workers': 2, 'chaos': {'max_yields': 2, 'seed': rng.randrange(1, 1 << 40)}}])
        sc = {'id': '', 'family': 'actions', 'sched': 'b2b-tail-' + rt['flavor'], 'seed': rng.randrange(1 << 30), 'runtime': rt, 'engine': {'store': 'mem', 'keep_processes': True},
              'models': [json.dumps(wf)], 'responder': {'mode': 'quiescent', 'rules': [{'match': {'uses': IRQ}, 'action': 'next', 'times': 100}]}, 'ops': ops}
        return {'scenarios': [sc], 'meta': {'wf': wf, 'kind': 'linear', 'sub': 'b2b'}, 'digest': digest([wf, ops]), 'nontrivial': True}

    def gen_composite(self, rng, idx, opts):
        """the client closes a RUNNING composite act (a block / generator with open acts below it, often with a catch of its
        own and an act after it in the same step); the acts below it are then answered, failed or skipped.  Closing a
        composite over its open children is the known C03 finding; what is watched here is C05: the closed act stays
        closed, whatever happens below it, and what follows it is created once"""
        form = rng.choice(['block', 'block', 'parallel', 'sequence'])
        inner = [irq('c1', 'k1')] + ([irq('c2', 'k2')] if rng.random() < 0.4 else [])
        if form == 'block':
            g1 = {'id': 'g1', 'uses': 'acts.core.block', 'params': {'mode': rng.choice(['sequence', 'parallel']), 'acts': inner}}
        else:
            g1 = {'id': 'g1', 'uses': 'acts.core.' + form, 'params': {'in': ['u', 'v'][:rng.randint(1, 2)], 'acts': [{'uses': IRQ, 'key': 'k1'}]}}
        r = rng.random()
        if r < 0.35:
            g1['catches'] = [{'steps': [{'id': 'c9', 'acts': [irq('a9', 'k9')]}]}]           # catch-all with steps
        elif r < 0.6:
            g1['catches'] = [{'on': 'e1', 'steps': [{'id': 'c9', 'acts': [irq('a9', 'k9')]}]}]
        elif r < 0.7:
            g1['catches'] = [{'steps': []}]
        acts = [g1] + ([irq('a2', 'k2b')] if rng.random() < 0.6 else [])
        wf = {'id': 'm1', 'steps': [{'id': 's1', 'acts': acts}, {'id': 's2', 'acts': [irq('a4', 'k4')]}, {'id': 's3', 'acts': [{'id': 'a5', 'uses': MSG, 'key': 'm5'}]}]}
        ops = [{'op': 'start', 'mid': 'm1', 'vars': {'pid': 'p1'}}, {'op': 'quiesce'}, {'op': 'snapshot', 'level': 'rows'}]
        close = rng.choice(['skip', 'skip', 'submit', 'remove', 'next', 'back', 'abort', 'error'])
        ops += [{'op': 'act', 'target': {'pid': 'p1', 'nid': 'g1', 'state': 'running', 'occ': 0}, 'action': close,
                 'options': {'to': 's1'} if close == 'back' else {'ecode': 'e1', 'message': 'x'} if close == 'error' else {}},
                {'op': 'quiesce'}, {'op': 'snapshot', 'level': 'rows'}]
        # the acts that were open below it when it was closed
        for _ in range(rng.randint(1, 3)):
            a_ = rng.choice(['next', 'next', 'error', 'error', 'skip', 'submit', 'abort'])
            ops += [{'op': 'act', 'target': {'pid': 'p1', 'key': rng.choice(['k1', 'k1', 'k2']), 'state': 'interrupted', 'occ': rng.choice([0, -1])}, 'action': a_,
                     'options': {'ecode': rng.choice(['e1', 'e1', 'e9']), 'message': 'x'} if a_ == 'error' else {}}, {'op': 'quiesce'}, {'op': 'snapshot', 'level': 'rows'}]
            if rng.random() < 0.5:
                # ... and the closed composite is answered once more
                a2 = rng.choice(['next', 'submit', 'skip', 'remove', 'error'])
                ops += [{'op': 'act', 'target': {'pid': 'p1', 'nid': 'g1', 'occ': 0}, 'action': a2, 'options': {'ecode': 'e1', 'message': 'x'} if a2 == 'error' else {}}, {'op': 'quiesce'}, {'op': 'snapshot', 'level': 'rows'}]
        ops += [{'op': 'run'}, {'op': 'snapshot', 'level': 'rows'}, {'op': 'quiesce'}]
        rt = rng.choice([{'flavor': 'current'}, {'flavor': 'current'}, {'flavor': 'multi', 'workers': 2, 'chaos': {'max_yields': 2, 'seed': rng.randrange(1, 1 << 40)}}])
        sc = {'id': '', 'family': 'actions', 'sched': 'composite-' + form + '-' + rt['flavor'], 'seed': rng.randrange(1 << 30), 'runtime': rt, 'engine': {'store': 'mem', 'keep_processes': True},
              'models': [json.dumps(wf)], 'responder': {'mode': 'quiescent', 'rules': [{'match': {'key': 'k1'}, 'action': 'none', 'times': 100}, {'match': {'key': 'k2'}, 'action': 'none', 'times': 100}, {'match': {'uses': IRQ}, 'action': 'next', 'times': 100}]}, 'ops': ops}
        return {'scenarios': [sc], 'meta': {'wf': wf, 'kind': 'composite', 'sub': 'composite', 'close': close}, 'digest': digest([wf, ops]), 'nontrivial': True}

    def gen_duel(self, rng, idx, opts):
        """different terminal actions racing on acts of sibling branches / the same act (C02/C03 hostile workload)"""
        kind, wf = models(rng)
        calls = []
        for _ in range(rng.randint(2, 4)):
            action = rng.choice(['next', 'abort', 'skip', 'error', 'submit', 'remove', 'back'])
            calls.append({'target': {'pid': 'p1', 'kind': 'act', 'state': 'interrupted', 'occ': rng.choice([0, 0, 1, -1])}, 'action': action, 'options': options_for(rng, action, wf, 0.9)})
        race = {'op': 'race', 'calls': calls}
        # the process is in nobody's memory when the racing calls are released (a quiescent point): each of them loads it
        forget = rng.random() < 0.3
        if forget:
            race['forget'] = True
        ops = [{'op': 'start', 'mid': 'm1', 'vars': {'pid': 'p1'}}, {'op': 'quiesce'}, race, {'op': 'quiesce'}, {'op': 'snapshot', 'level': 'rows'}, {'op': 'run'}, {'op': 'snapshot', 'level': 'rows'}, {'op': 'probe_acts', 'pid': 'p1', 'evict': True}, {'op': 'quiesce'}]
        rt = {'flavor': 'multi', 'workers': rng.choice([2, 4]), 'chaos': {'max_yields': 2, 'pause_us': rng.choice([0, 50]), 'seed': rng.randrange(1, 1 << 40)}}
        sc = {'id': '', 'family': 'actions', 'sched': 'duel-forget' if forget else 'duel', 'seed': rng.randrange(1 << 30), 'runtime': rt, 'engine': {'store': 'mem', 'keep_processes': True},
              'models': [json.dumps(wf)], 'responder': {'mode': 'quiescent', 'rules': [{'match': {'uses': IRQ}, 'action': 'next', 'times': 100}]}, 'ops': ops}
        return {'scenarios': [sc], 'meta': {'wf': wf, 'kind': kind, 'sub': 'duel'}, 'digest': digest([wf, calls]), 'nontrivial': True}

    # ------------------------------------------------------------------ C05
    def judge(self, c, opts, obs):
        sub = c['meta']['sub']
        if sub == 'matrix':
            return self.judge_matrix(c, obs)
        if sub == 'twins':
            return self.judge_twins(c, obs)
        return []

    def judge_matrix(self, c, obs):
        out = []
        h, sc = c['hist'][0], c['scenarios'][0]
        wf = c['meta']['wf']
        from monitors import model_facts
        facts = model_facts(sc)
        # pair every act op with the snapshots before and after it
        ops = h.ops
        snaps = {o['i']: o['res'] for o in ops if o['op'] == 'snapshot'}
        delivered_at = []
        for o in ops:
            if o['op'] != 'act':
                continue
            i = o['i']
            s0, s1 = snaps.get(i - 1), snaps.get(i + 2)
            if s0 is None or s1 is None:
                continue
            res = o['res']
            op = sc['ops'][i]
            action, options = op['action'], op.get('options') or {}
            tid, pid = res['tid'], res['pid']
            live = {p['pid']: p for p in s0.get('live') or []}
            task = None
            if pid in live:
                task = next((t for t in live[pid]['tasks'] if t['tid'] == tid), None)
            cls = 'unknown-pid' if pid not in live else 'unknown-tid' if task is None else (task['kind'] + ':' + ('open' if task['state'] in OPEN else 'terminal'))
            obs[f'c05.matrix:{action}:{cls}:{"ok" if res["ok"] else "err"}'] += 1
            declared = []
            if task is not None:
                node = facts['nodes'].get(task['nid'])
                if node:
                    declared = list((node[1].get('outputs') or {}).keys())
            # necessary conditions for acceptance
            N = task is not None
            why = 'no-such-task' if not N else ''
            if N and action == 'push' and task['kind'] != 'step':
                N, why = False, 'push-on-' + task['kind']
            if N and action != 'push' and task['kind'] != 'act':
                N, why = False, f'{action}-on-' + task['kind']
            if N and action in TERMINAL_ACTIONS and task['state'] in TERM:
                N, why = False, f'{action}-on-terminal-act:{task["state"]}'
            if N and any(k not in options for k in declared):
                N, why = False, 'declared-output-missing'
            same = summarize(s0) == summarize(s1)
            ndel0 = s0.get('trace_len')
            if not N and res['ok']:
                out.append(V('C05', 'accepted-without-precondition', why, f"{action} on {cls} ({task['nid'] if task else tid}) with options {list(options)} was accepted; reason it must be refused: {why}", scenario=sc['id']))
            if not res['ok'] and not same and (action in TERMINAL_ACTIONS or not N):
                d = self.diff(summarize(s0), summarize(s1))
                out.append(V('C05', 'rejected-but-changed', f"{action}:{cls}:{d[0]}", f"{action} on {cls} returned Err ({(res.get('err') or '')[:60]}) but state changed: {d[1]}", scenario=sc['id']))
        return out

    @staticmethod
    def diff(a, b):
        for pid in set(a['live']) | set(b['live']):
            x, y = a['live'].get(pid), b['live'].get(pid)
            if x is None or y is None:
                return 'process-set', f'pid {pid} appeared/disappeared'
            if x['state'] != y['state']:
                return 'process-state', f"{x['state']} -> {y['state']}"
            if set(x['tasks']) != set(y['tasks']):
                return 'task-set', f"tasks added {[y['tasks'][t][0] for t in set(y['tasks']) - set(x['tasks'])]}"
            for t in x['tasks']:
                if x['tasks'][t] != y['tasks'][t]:
                    f = [n for n, (u, v) in zip(('nid', 'state', 'prev', 'data', 'err'), zip(x['tasks'][t], y['tasks'][t])) if u != v]
                    return 'task-' + '+'.join(f), f"{x['tasks'][t][0]}: {x['tasks'][t][1]} -> {y['tasks'][t][1]} fields {f}"
        if a['rows'] != b['rows'] or a['prows'] != b['prows']:
            return 'store-rows', 'store rows changed'
        if a['trace_len'] != b['trace_len']:
            return 'trace', f"hook trace grew by {b['trace_len'] - a['trace_len']} records (state writes / creations / messages)"
        return 'other', ''

    def judge_twins(self, c, obs):
        out = []
        m = c['meta']
        hk, h1 = c['hist']
        sck = c['scenarios'][0]
        tw = [o for o in hk.ops if o['op'] == 'twins'][0]['res']
        obs[f"c05.twins:{m['action']}:threads={m['threads']}:oks={tw['oks']}"] += 1
        obs['c05.twin-races'] += 1
        if tw['oks'] != 1:
            out.append(V('C05', 'twin-success-count', f"{m['action']}:{'none' if tw['oks'] == 0 else 'several'}", f"{m['threads']} concurrent '{m['action']}' on one open act: {tw['oks']} succeeded", scenario=sck['id']))

        def shape(h):
            ft = h.final_tasks()
            tasks = collections.Counter((t['nid'], t['state']) for t in ft.values())
            msgs = collections.Counter((e['nid'], e['state']) for e in h.delivers)
            cbs = collections.Counter((e['what'], e['state']) for e in h.cbs)
            return tasks, msgs, cbs
        a, b = shape(hk), shape(h1)
        if a[0] != b[0]:
            extra = dict(a[0] - b[0])
            miss = dict(b[0] - a[0])
            kind = 'successor-duplicated' if any(n in ('s2', 'a4', 's3') or n.startswith('a') for (n, s) in extra) and not miss else 'outcome-differs'
            out.append(V('C05', 'twin-effect-not-once', f"{m['action']}:tasks:{kind}", f"final tasks differ from the single-action run: extra {extra} missing {miss}", scenario=sck['id']))
        elif a[1] != b[1] or a[2] != b[2]:
            extra = dict(a[1] - b[1])
            miss = dict(b[1] - a[1])
            out.append(V('C05', 'twin-effect-not-once', f"{m['action']}:messages", f"messages differ from the single-action run: extra {extra} missing {miss}; events {dict(a[2])} vs {dict(b[2])}", scenario=sck['id']))
        return out
