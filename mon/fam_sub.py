"""Family F-sub (C15): chains of sub-workflow calls (depth 1..3), every way the leaf can end, a missing target
model, racing activity in the parent.  Oracle: call/return protocol automaton per calling act."""
import collections
import json

from common import IRQ, MSG, OPEN, TERM, V, digest

SUB = 'acts.core.subflow'


class SubFamily:
    name = 'sub'

    def gen_orphan(self, rng, idx, opts):
        """the client sends the calling act back to an earlier step while the child is running; the child, which nobody
        waits for any more, ends afterwards: its return must not close the calling act a second time"""
        ending = rng.choice(['next', 'next', 'error', 'abort', 'skip'])
        tag = rng.randint(1000, 9999)
        m0 = {'id': 'm0', 'inputs': {'x': 0, 'y': 0}, 'outputs': {'y': None}, 'steps': [
            {'id': 'spre', 'acts': [{'id': 'pre', 'uses': IRQ, 'key': 'pre'}]},
            {'id': 's0', 'acts': [{'id': 'call0', 'uses': SUB, 'params': {'to': 'm1', 'options': {'pid': 'p1', 'x': tag, 'extra': 'e0'}}}, {'id': 'after0', 'uses': MSG, 'key': 'after0'}]}]}
        m1 = {'id': 'm1', 'inputs': {'x': 0, 'y': 0}, 'outputs': {'y': None, 'x': None}, 'steps': [{'id': 's1', 'acts': [{'id': 'leaf', 'uses': IRQ, 'key': 'leaf'}]}]}
        opts_end = {'next': {'y': tag + 500}, 'error': {'ecode': 'e7', 'message': 'child failed'}, 'abort': {}, 'skip': {}}[ending]
        rules = [{'match': {'key': 'pre'}, 'action': 'next', 'times': 1}, {'match': {'key': 'leaf'}, 'action': 'none', 'times': 100}]
        rt = rng.choice([{'flavor': 'current'}, {'flavor': 'current', 'chaos': {'max_yields': 4, 'seed': rng.randrange(1, 1 << 40)}}, {'flavor': 'multi', 'workers': 2, 'chaos': {'max_yields': 3, 'seed': rng.randrange(1, 1 << 40)}}])
        snap = opts.get('snap', 'live')
        ops = [{'op': 'start', 'mid': 'm0', 'vars': {'pid': 'p0'}}, {'op': 'run', 'snap': snap},
               {'op': 'act', 'target': {'pid': 'p0', 'nid': 'call0', 'occ': 0}, 'action': 'back', 'options': {'to': 'spre'}}, {'op': 'quiesce'}, {'op': 'snapshot', 'level': snap}]
        if rng.random() < 0.3:
            ops += [{'op': 'evict'}]
        ops += [{'op': 'act', 'target': {'pid': 'p1', 'key': 'leaf', 'state': 'interrupted'}, 'action': ending, 'options': opts_end}, {'op': 'quiesce'}, {'op': 'snapshot', 'level': snap}]
        sc = {'id': '', 'family': 'sub', 'sched': rt['flavor'] + '-orphan', 'seed': rng.randrange(1 << 30), 'runtime': rt, 'engine': {'store': opts.get('store', 'mem'), 'keep_processes': True}, 'models': [json.dumps(m0), json.dumps(m1)],
              'responder': {'mode': 'quiescent', 'order': 'fifo', 'rules': rules}, 'ops': ops}
        if opts.get('store') == 'sqlite':
            sc['watchdog_ms'] = 60000
        return {'scenarios': [sc], 'meta': {'orphan': True, 'ending': ending, 'tag': tag, 'depth': 1, 'missing': False}, 'digest': digest(['orphan', ending, rt, ops]), 'nontrivial': True}

    def judge_orphan(self, c, obs):
        out = []
        h, sc = c['hist'][0], c['scenarios'][0]
        sid = sc['id']
        acts_ = [o for o in h.ops if o['op'] == 'act']
        obs['c15.runs:orphaned-child'] += 1
        if len(acts_) < 2 or not acts_[0]['res'].get('ok'):
            obs['c15.orphan:back-refused'] += 1
            return out
        calls = [e for e in h.creates if e['pid'] == 'p0' and e['nid'] == 'call0']
        if not calls:
            return out
        k = ('p0', calls[0]['tid'])
        recs = [e for e in h.states if (e['pid'], e['tid']) == k and e['via'] == 'set']
        terms = [e['new'] for e in recs if e['new'] in TERM and e['old'] != e['new']]
        cterm = [e for e in h.cbs if e['pid'] == 'p1' and e['what'] != 'start']
        obs[f"c15.orphan:child-ended-{cterm[0]['state'] if cterm else 'not'}-after-the-call-was-sent-back"] += 1
        if terms != ['backed']:
            out.append(V('C15', 'call-closed-count', f"{len(terms)}:{'+'.join(terms) or 'none'}:after-client-back", f"the calling act was sent back by the client while its child ran; the child ended later and the act went {terms} (closed exactly once: backed)", scenario=sid))
        return out

    def gen(self, rng, idx, opts):
        if rng.random() < opts.get('orphan', 0.1):
            return self.gen_orphan(rng, idx, opts)
        depth = rng.randint(1, 3)             # number of calls in the chain
        missing = rng.random() < 0.12
        ending = rng.choice(['next', 'next', 'error', 'abort', 'skip'])
        tag = rng.randint(1000, 9999)
        models = []
        par = rng.random() < 0.5
        nullout = rng.random() < 0.25
        # the outermost calling act may take the failure itself: a catch for the child's code (or a catch-all), with or
        # without steps.  The act then completes once its catch has, and its process goes on
        catch0 = None
        if rng.random() < 0.25:
            catch0 = {'steps': [{'id': 'cs0', 'acts': [{'id': 'ca0', 'uses': MSG, 'key': 'caught0'}]}] if rng.random() < 0.6 else []}
            on = rng.choice(['e7', None, 'e9'])
            if on:
                catch0['on'] = on
            elif rng.random() < 0.6:
                missing = True          # a child that fails at once, taken by the calling act's own catch-all
        for lvl in range(depth + 1):
            mid = f'm{lvl}'
            if lvl < depth:
                to = f'm{lvl + 1}' if not (missing and lvl == depth - 1) else 'nosuchmodel'
                call = {'id': f'call{lvl}', 'uses': SUB, 'params': {'to': to, 'options': {'pid': f'p{lvl + 1}', 'x': tag + lvl, 'extra': f'e{lvl}'}}}
                if nullout:
                    call['outputs'] = {'y': None, 'z': None}      # z: declared by the child as well, never given a value
                if lvl == 0 and catch0 is not None:
                    call['catches'] = [catch0]
                main = {'id': f's{lvl}', 'acts': [call, {'id': f'after{lvl}', 'uses': MSG, 'key': f'after{lvl}'}]}
                if lvl == 0 and par:
                    steps = [{'id': 'fork', 'branches': [{'id': 'bcall', 'if': 'true', 'steps': [main]}, {'id': 'bpar', 'if': 'true', 'steps': [{'id': 'spar', 'acts': [{'id': 'apar', 'uses': IRQ, 'key': 'pk'}]}]}]}]
                else:
                    steps = [main]
                models.append({'id': mid, 'inputs': {'x': 0, 'y': 0}, 'outputs': dict({'y': None}, **({'z': None} if nullout else {})), 'steps': steps})
            else:
                models.append({'id': mid, 'inputs': {'x': 0, 'y': 0}, 'outputs': dict({'y': None, 'x': None}, **({'z': None} if nullout else {})), 'steps': [{'id': f's{lvl}', 'acts': [{'id': 'leaf', 'uses': IRQ, 'key': 'leaf'}]}]})
        opts_end = {'next': {'y': tag + 500}, 'error': {'ecode': 'e7', 'message': 'child failed'}, 'abort': {}, 'skip': {}}[ending]
        rules = [{'match': {'key': 'leaf'}, 'action': ending, 'options': opts_end}, {'match': {'key': 'pk'}, 'action': 'next'}]
        if rng.random() < 0.5:
            rules.reverse()
        rt = rng.choice([{'flavor': 'current'}, {'flavor': 'current', 'chaos': {'max_yields': 4, 'seed': rng.randrange(1, 1 << 40)}}, {'flavor': 'multi', 'workers': 2, 'chaos': {'max_yields': 3, 'seed': rng.randrange(1, 1 << 40)}},
                         {'flavor': 'multi', 'workers': 4, 'chaos': {'max_yields': 3, 'seed': rng.randrange(1, 1 << 40)}}])
        mode = rng.choice(['quiescent', 'quiescent', 'inline'])
        sc = {'id': '', 'family': 'sub', 'sched': rt['flavor'] + '-' + mode, 'seed': rng.randrange(1 << 30), 'runtime': rt, 'engine': {'store': opts.get('store', 'mem'), 'keep_processes': True}, 'models': [json.dumps(m) for m in models],
              'responder': {'mode': mode, 'order': rng.choice(['fifo', 'lifo', 'seeded']), 'rules': rules},
              'ops': [{'op': 'start', 'mid': 'm0', 'vars': {'pid': 'p0'}}, {'op': 'run', 'snap': opts.get('snap', 'live')}, {'op': 'snapshot', 'level': opts.get('snap', 'live')}]}
        if opts.get('store') == 'sqlite':
            sc['watchdog_ms'] = 60000
            if mode == 'quiescent' and rng.random() < opts.get('restart', 0.6):
                # the engine is stopped and started again on the same database while the leaf waits for the client
                sc['faults'] = {'restart_at': sorted(set(rng.randint(1, 3) for _ in range(rng.randint(1, 2))))}
                sc['sched'] += '+restart'
        elif mode == 'quiescent' and rng.random() < opts.get('evict', 0.3):
            # the whole chain is dropped from the cache while the leaf waits for the client
            sc['faults'] = {'evict_at': sorted(set(rng.randint(1, 3) for _ in range(rng.randint(1, 2))))}
            sc['sched'] += '+evict'
        return {'scenarios': [sc], 'meta': {'depth': depth, 'missing': missing, 'ending': ending, 'tag': tag, 'par': par, 'catch0': catch0, 'nullout': nullout}, 'digest': digest([depth, missing, ending, par, rt, mode, rules, catch0, nullout]), 'nontrivial': True}

    def judge(self, c, opts, obs):
        out = []
        h, sc, m = c['hist'][0], c['scenarios'][0], c['meta']
        if m.get('orphan'):
            return self.judge_orphan(c, obs)
        sid = sc['id']
        depth, tag = m['depth'], m['tag']
        obs[f"c15.runs:depth={depth}:{'missing-model' if m['missing'] else m['ending']}"] += 1
        final = h.final_tasks()
        cbs = collections.defaultdict(list)
        for e in h.cbs:
            cbs[e['pid']].append(e)
        term_emit = {}
        for e in h.emits:
            if e['what'] in ('complete', 'error'):
                term_emit.setdefault(e['pid'], e['seq'])
        for lvl in range(depth):
            ppid, cpid = f'p{lvl}', f'p{lvl + 1}'
            race = h.race_tag(ppid)
            call = [(k, t) for k, t in final.items() if k[0] == ppid and t['nid'] == f'call{lvl}']
            if not call:
                # an upper call failed, this level was never reached
                continue
            k, t = call[0]
            obs['c15.calls'] += 1
            is_missing = m['missing'] and lvl == depth - 1
            recs = [e for e in h.states if (e['pid'], e['tid']) == k and e['via'] == 'set']
            terms = [e for e in recs if e['new'] in TERM and e['old'] != e['new']]
            c0 = m.get('catch0') if lvl == 0 else None
            if is_missing:
                # (the code of this failure is the engine's own: only a catch-all on the act takes it)
                if c0 is not None and not c0.get('on'):
                    obs['c15.calls-with-own-catch'] += 1
                    if t['state'] != 'completed':
                        out.append(V('C15', 'caught-call-not-completed', f"missing-model:{t['state']}", f"the calling act's own catch-all takes the failure of a call to a missing model, the act is {t['state']}", scenario=sid))
                elif t['state'] != 'error':
                    out.append(V('C15', 'missing-model-call-not-failed', t['state'], f"call to a missing model left the calling act {t['state']}", scenario=sid))
                continue
            cstart = [e for e in cbs.get(cpid, []) if e['what'] == 'start']
            cterm = [e for e in cbs.get(cpid, []) if e['what'] != 'start']
            if len(cstart) != 1:
                out.append(V('C15', 'child-start-events', str(len(cstart)), f"child {cpid} delivered {len(cstart)} start events", scenario=sid))
                continue
            # the child starts with exactly the inputs given in the call
            ins = dict(cstart[0].get('inputs') or {})
            given = {'x': tag + lvl, 'extra': f'e{lvl}'}
            for k_ in ('pid', '$parent_pid', '$parent_tid', '$initiator'):
                ins.pop(k_, None)
            ins_cmp = {k_: v for k_, v in ins.items() if not (k_ == 'y' and v == 0)}       # the child's own declared default
            if ins_cmp != given:
                out.append(V('C15', 'child-inputs', 'extra' if set(ins_cmp) - set(given) else 'missing' if set(given) - set(ins_cmp) else 'value', f"child {cpid} started with {ins_cmp}, the call gave {given}", scenario=sid))
            # while the child has no terminal event the calling act stays open (checked at every quiescent point)
            cterm_seq = cterm[0]['seq'] if cterm else None
            for q in h.qps:
                snap = q.get('snap')
                if not snap or (cterm_seq is not None and q['seq'] > cterm_seq):
                    continue
                for p in snap['live']:
                    if p['pid'] == ppid:
                        for x in p['tasks']:
                            if x['tid'] == k[1] and x['state'] in TERM:
                                ctask_done = term_emit.get(cpid)
                                if ctask_done is None or ctask_done > q['seq']:
                                    out.append(V('C15', 'call-closed-before-child-ended', f"{x['state']}:{race}", f"calling act call{lvl} is {x['state']} at a quiescent point although child {cpid} has not ended", scenario=sid))
            if not cterm:
                # the child did not end (e.g. an upper level aborted first): nothing to return
                continue
            if len(cterm) > 1:
                out.append(V('C15', 'child-terminal-events', f"{len(cterm)}:{h.race_tag(cpid)}", f"child {cpid} delivered terminal events {[(e['what'], e['state']) for e in cterm]}", scenario=sid))
            cs = cterm[0]['state']
            want = {'completed': 'completed', 'error': 'error', 'aborted': 'aborted', 'skipped': 'skipped'}.get(cs, 'completed')
            if cs == 'error' and c0 is not None and c0.get('on') in (None, (cterm[0].get('inputs') or {}).get('ecode')):
                # the act's own catch takes the child's error: error -> running -> (catch steps) -> completed, and the caller goes on
                obs['c15.calls-with-own-catch'] += 1
                if [e['new'] for e in terms] != ['error', 'completed'] or t['state'] != 'completed':
                    out.append(V('C15', 'caught-call-not-completed', f"child-error:{'+'.join(e['new'] for e in terms) or 'none'}:{t['state']}", f"child {cpid} ended with an error that the calling act's own catch takes: the act went {[e['new'] for e in terms]} and is {t['state']} (expected error, then completed)", scenario=sid))
                pend = [e for e in cbs.get(ppid, []) if e['what'] != 'start']
                if [(e['what'], e['state']) for e in pend] != [('complete', 'completed')]:
                    out.append(V('C15', 'caller-did-not-go-on', f"{'+'.join(e['what'] for e in pend) or 'none'}", f"after the caught failure of its call the caller {ppid} delivered {[(e['what'], e['state']) for e in pend]}", scenario=sid))
                continue
            if len(terms) != 1:
                out.append(V('C15', 'call-closed-count', f"{len(terms)}:{'+'.join(e['new'] for e in terms) or 'none'}:{race}", f"calling act call{lvl}: {len(terms)} terminal transitions {[(e['old'], e['new']) for e in terms]} after child ended {cs}", scenario=sid))
                if not terms:
                    continue
            if terms[0]['new'] != want:
                out.append(V('C15', 'call-closed-state', f"{cs}->{terms[0]['new']}:{race}", f"child {cpid} ended {cs} but the calling act became {terms[0]['new']}", scenario=sid))
            if terms[0]['seq'] < (term_emit.get(cpid) or 0):
                out.append(V('C15', 'call-closed-before-child-event', race, f"calling act closed before the child's terminal event was generated", scenario=sid))
            if want == 'completed':
                y = (t.get('data') or {}).get('y')
                cy = (cterm[0].get('outputs') or {}).get('y')
                if y != cy:
                    out.append(V('C15', 'child-outputs-not-returned', race, f"child ended with outputs y={cy}, calling act holds y={y}", scenario=sid))
                if m.get('nullout'):
                    obs['c15.returns-with-a-null-output'] += 1
            if want == 'error':
                err = t.get('err') or {}
                cin = cterm[0].get('inputs') or {}
                if (err.get('ecode'), err.get('message')) != (cin.get('ecode'), cin.get('message')):
                    out.append(V('C15', 'child-error-not-returned', race, f"child error ({cin.get('ecode')}, {cin.get('message')}) became {err} on the calling act", scenario=sid))
            # the parent's terminal event never precedes the child's
            if ppid in term_emit and cpid in term_emit and term_emit[ppid] < term_emit[cpid]:
                out.append(V('C15', 'parent-ended-before-child', race, f"terminal event of {ppid} was generated before that of its child {cpid}", scenario=sid))
        return out
