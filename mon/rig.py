"""Building the executor and running scenario batches through it."""
import json
import os
import subprocess
import sys
import time

HERE = os.path.dirname(os.path.abspath(__file__))
ROOT = os.path.dirname(HERE)
HARNESS = os.path.join(ROOT, 'harness')
BIN = os.path.join(HARNESS, 'target', 'release', 'actsx')


def build(verbose=False):
    """cargo build of the executor against /repo's current working tree (path dependency). -> (ok, seconds, log)"""
    t0 = time.time()
    env = dict(os.environ, CARGO_NET_OFFLINE='true')
    r = subprocess.run(['cargo', 'build', '--release', '--offline'], cwd=HARNESS, env=env, capture_output=True, text=True)
    if verbose or r.returncode != 0:
        sys.stderr.write(r.stderr[-4000:])
    return r.returncode == 0 and os.path.exists(BIN), time.time() - t0, r.stderr[-4000:]


def _is_sqlite(sc):
    return (sc.get('engine') or {}).get('store') == 'sqlite'


def chunks(scenarios):
    """split into process-sized batches: the engine keeps itself alive through Arc cycles, so an
    executor process is retired after a bounded number of engines (SQLite engines also leak fds/threads)"""
    out, cur, w = [], [], 0
    for sc in scenarios:
        cost = 12 if _is_sqlite(sc) else 1
        if cur and w + cost > 400:
            out.append(cur)
            cur, w = [], 0
        cur.append(sc)
        w += cost
    if cur:
        out.append(cur)
    return out


def run_batch(scenarios, workdir, tag):
    """-> list of raw history dicts aligned with scenarios (status 'crashed'/'timeout' when the executor died)"""
    os.makedirs(workdir, exist_ok=True)
    results = []
    n = 0
    for chunk in chunks(scenarios):
        todo = list(chunk)
        while todo:
            n += 1
            bpath = os.path.join(workdir, f'{tag}-{n}.batch.json')
            opath = os.path.join(workdir, f'{tag}-{n}.out.jsonl')
            with open(bpath, 'w') as f:
                json.dump(todo, f)
            limit = 60 + sum((sc.get('watchdog_ms') or 30000) / 1000.0 for sc in todo)
            try:
                subprocess.run([BIN, 'run', bpath, opath], stdout=subprocess.DEVNULL, stderr=subprocess.DEVNULL, timeout=limit, cwd=workdir)
            except subprocess.TimeoutExpired:
                pass
            got = []
            if os.path.exists(opath):
                with open(opath) as f:
                    for line in f:
                        line = line.strip()
                        if not line:
                            continue
                        try:
                            got.append(json.loads(line))
                        except Exception:
                            break
            for p in (bpath, opath):
                try:
                    os.remove(p)
                except OSError:
                    pass
            results.extend(got)
            if len(got) >= len(todo):
                todo = []
            else:
                # the executor died on scenario len(got): record it, continue with the rest in a new process
                if got and got[-1].get('status') == 'timeout':
                    # the watchdog already wrote the line of the hung scenario
                    todo = todo[len(got):]
                else:
                    dead = todo[len(got)]
                    results.append({'id': dead.get('id'), 'status': 'crashed', 'panics': [], 'records': [], 'wall_ms': 0})
                    todo = todo[len(got) + 1:]
    # align by position (ids are unique per batch by construction)
    assert len(results) == len(scenarios), (len(results), len(scenarios))
    return results
