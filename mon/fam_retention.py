"""Family F-retention (C17): interleaved processes ending by completion, error, abort, skip under both settings of
keep_processes and both stores, with an acknowledging channel so that message rows exist; models with start
events removed in between.  Oracle: exact row-set predicates on complete dumps of the collections."""
import collections
import json

from common import IRQ, MSG, OPEN, TERM, V, digest


def model(mid, rng):
    n = rng.randint(1, 2)
    steps = [{'id': 's1', 'acts': [{'id': f'a{i}', 'uses': IRQ, 'key': f'k{i}'} for i in range(n)]}]
    if rng.random() < 0.5:
        steps.append({'id': 's2', 'branches': [{'id': 'b1', 'if': 'true', 'steps': [{'id': 's21', 'acts': [{'id': 'a21', 'uses': IRQ, 'key': 'k21'}]}]},
                                               {'id': 'b2', 'if': 'true', 'steps': [{'id': 's22', 'acts': [{'id': 'a22', 'uses': IRQ, 'key': 'k22'}]}]}]})
    wf = {'id': mid, 'steps': steps}
    if rng.random() < 0.7:
        wf['on'] = [{'id': f'{mid}_ev{j}', 'uses': 'acts.event.manual', 'params': {'n': j}} for j in range(rng.randint(1, 2))]
    return wf


class RetentionFamily:
    name = 'retention'

    def gen(self, rng, idx, opts):
        keep = rng.random() < 0.5
        store = opts.get('store') or rng.choice(['mem', 'mem', 'sqlite'])
        models = [model('ma', rng), model('mb', rng)]
        n = rng.randint(2, 4)
        pids = [f'p{i}' for i in range(n)]
        ops = []
        for p in pids:
            ops += [{'op': 'start', 'mid': rng.choice(['ma', 'mb']), 'vars': {'pid': p}}, {'op': 'quiesce'}]
        ops.append({'op': 'snapshot', 'level': 'all'})
        plan = {p: rng.choice(['complete', 'complete', 'error', 'abort', 'skip', 'leave']) for p in pids}
        steps = 0
        alive = list(pids)
        removed_model = False
        while alive and steps < 14:
            steps += 1
            if not removed_model and rng.random() < 0.12:
                removed_model = True
                if models[1].get('on') and rng.random() < 0.5:
                    # the model is re-deployed with fewer start events before it is removed
                    m2 = json.loads(json.dumps(models[1]))
                    m2['on'] = m2['on'][:-1]
                    if not m2['on']:
                        m2.pop('on')
                    ops += [{'op': 'deploy', 'yaml': json.dumps(m2)}, {'op': 'quiesce'}, {'op': 'snapshot', 'level': 'all'}]
                ops += [{'op': 'model_rm', 'id': 'mb'}, {'op': 'quiesce'}, {'op': 'snapshot', 'level': 'all'}]
                continue
            p = rng.choice(alive)
            how = plan[p]
            if how == 'leave' and rng.random() < 0.5:
                alive.remove(p)
                continue
            action = 'next'
            if how in ('error', 'abort', 'skip') and rng.random() < 0.5:
                action = how
            ops += [{'op': 'act', 'target': {'pid': p, 'kind': 'act', 'state': 'interrupted', 'occ': rng.choice([0, -1])}, 'action': action, 'options': {'ecode': 'e1'}}, {'op': 'quiesce'}, {'op': 'snapshot', 'level': 'all'}]
        if rng.random() < opts.get('burst', 0.3):
            # processes that end by themselves, started back to back: with a small cache the earlier ones have left the LRU
            # when they end
            nb = rng.randint(3, 8)
            ops += [{'op': 'starts', 'items': [{'mid': 'mt', 'vars': {'pid': f'q{i}'}} for i in range(nb)], 'threads': rng.choice([1, 1, 2])}, {'op': 'quiesce'}, {'op': 'snapshot', 'level': 'all'}]
        if rng.random() < opts.get('big', 0.06):
            # a process with well over a hundred task rows
            ops += [{'op': 'start', 'mid': 'mbig', 'vars': {'pid': 'big'}}, {'op': 'quiesce'}, {'op': 'snapshot', 'level': 'all'}]
        # probe: further actions on every process (ended ones must refuse)
        for p in pids:
            ops += [{'op': 'act', 'target': {'pid': p, 'tid': '$'}, 'action': 'next'}, {'op': 'api', 'what': 'proc_get', 'pid': p}]
        ops += [{'op': 'quiesce'}, {'op': 'snapshot', 'level': 'all'}]
        rt = rng.choice([{'flavor': 'current'}, {'flavor': 'current', 'chaos': {'max_yields': 3, 'seed': rng.randrange(1, 1 << 40)}}, {'flavor': 'multi', 'workers': 2, 'chaos': {'max_yields': 2, 'seed': rng.randrange(1, 1 << 40)}}])
        cap = rng.choice([1024, 1024, 1, 2])
        tiny = {'id': 'mt', 'steps': [{'id': 'st', 'acts': [{'id': 'at', 'uses': MSG, 'key': 'mt'}]}]}
        big = {'id': 'mbig', 'steps': [{'id': f'bs{i}', 'acts': [{'id': f'ba{i}', 'uses': MSG, 'key': 'mb'}]} for i in range(rng.randint(55, 80))]}
        sc = {'id': '', 'family': 'retention', 'sched': f"{rt['flavor']}-{store}-{'keep' if keep else 'default'}-cap{cap}", 'runtime': rt, 'engine': {'store': store, 'keep_processes': keep, 'cache_cap': cap}, 'models': [json.dumps(m) for m in models] + [json.dumps(tiny), json.dumps(big)],
              'channels': [{'id': 'main', 'ack': True}], 'responder': {'rules': []}, 'ops': ops, 'watchdog_ms': 60000}
        return {'scenarios': [sc], 'meta': {'keep': keep, 'store': store, 'pids': pids, 'models': models}, 'digest': digest([models, ops, keep, store]), 'nontrivial': True}

    def judge(self, c, opts, obs):
        out = []
        h, sc, m = c['hist'][0], c['scenarios'][0], c['meta']
        sid = sc['id']
        keep, store = m['keep'], m['store']
        tag = f"{store}:{'keep' if keep else 'default'}"
        ended = {}          # pid -> (seq, state) of the terminal event
        for e in h.cbs:
            if e['what'] != 'start':
                ended.setdefault(e['pid'], (e['seq'], e['state']))
        snaps = [(o['seq'], o['i'], o['res']) for o in h.ops if o['op'] == 'snapshot']
        prev = None
        for seq, i, s in snaps:
            rows = {k: s.get(k) for k in ('procs', 'tasks', 'messages', 'events', 'models')}
            if any(not isinstance(v, list) for v in rows.values()):
                out.append(V('C17', 'rows-unreadable', tag, f"a collection could not be listed: { {k: v for k, v in rows.items() if not isinstance(v, list)} }", scenario=sid))
                continue
            obs['c17.snapshots'] += 1
            procs = {r['id']: r for r in rows['procs']}
            tasks = collections.defaultdict(list)
            for r in rows['tasks']:
                tasks[r['pid']].append(r)
            for pid, (eseq, estate) in ended.items():
                if eseq > seq:
                    continue
                obs['c17.ended-process-checks'] += 1
                if not keep:
                    if pid in procs or tasks.get(pid):
                        out.append(V('C17', 'rows-left-after-end', f"{tag}:{'proc' if pid in procs else ''}{'+tasks' if tasks.get(pid) else ''}:{estate}", f"{pid} ended {estate} but {('its proc row' if pid in procs else '')} {len(tasks.get(pid, []))} task rows remain", scenario=sid))
                else:
                    if pid not in procs or not tasks.get(pid):
                        out.append(V('C17', 'rows-missing-with-keep', f"{tag}:{estate}", f"{pid} ended {estate} with keep_processes but its rows are gone (proc row {pid in procs}, {len(tasks.get(pid, []))} task rows)", scenario=sid))
                    else:
                        if procs[pid]['state'] not in TERM:
                            out.append(V('C17', 'kept-proc-row-not-terminal', f"{tag}:{procs[pid]['state']}", f"{pid} ended {estate} but its kept proc row says {procs[pid]['state']}", scenario=sid))
                        if estate != 'error':
                            open_ = [r for r in tasks[pid] if r['state'] in OPEN and '$is_event_processed' not in (r.get('data') or '')]
                            if open_:
                                out.append(V('C17', 'kept-task-row-not-terminal', f"{tag}:{estate}:{open_[0]['kind']}:{open_[0]['state']}", f"{pid} ended {estate} but kept task rows are open: {[(r['kind'], r['state']) for r in open_][:4]}", scenario=sid))
            if prev is not None:
                pseq, pi, ps = prev
                op_between = [sc['ops'][j] for j in range(pi + 1, i)]
                actor = next((o['target']['pid'] for o in op_between if o['op'] == 'act'), None)
                started = {it['vars']['pid'] for o in op_between if o['op'] == 'starts' for it in o['items']} | {o['vars']['pid'] for o in op_between if o['op'] == 'start'}
                rm_model = next((o['id'] for o in op_between if o['op'] == 'model_rm'), None)
                # rows of processes that did not act are untouched
                for kind in ('procs', 'tasks'):
                    a = {r['id']: r for r in ps[kind] if (r['id'] if kind == 'procs' else r['pid']) != actor and (r['id'] if kind == 'procs' else r['pid']) not in started}
                    b = {r['id']: r for r in s[kind] if (r['id'] if kind == 'procs' else r['pid']) != actor and (r['id'] if kind == 'procs' else r['pid']) not in started}
                    obs['c17.bystander-row-compares'] += len(a)
                    if a != b:
                        gone = sorted(set(a) - set(b))
                        new = sorted(set(b) - set(a))
                        chg = sorted(k for k in set(a) & set(b) if a[k] != b[k])
                        out.append(V('C17', 'bystander-rows-changed', f"{tag}:{kind}:{'gone' if gone else 'new' if new else 'changed'}", f"rows of processes that did nothing changed between two snapshots: gone {gone[:3]} new {new[:3]} changed {chg[:3]} (actor {actor}, model_rm {rm_model})", scenario=sid))
                # no message row is ever deleted by a process removal
                a = {r['id'] for r in ps['messages']}
                b = {r['id'] for r in s['messages']}
                if a - b:
                    out.append(V('C17', 'message-rows-deleted', tag, f"{len(a - b)} message rows disappeared (actor {actor}, model_rm {rm_model})", scenario=sid))
                # model removal removes exactly its events
                ea = {r['id']: r for r in ps['events']}
                eb = {r['id']: r for r in s['events']}
                if rm_model:
                    obs['c17.model-removals'] += 1
                    want = {k: v for k, v in ea.items() if v['mid'] != rm_model}
                    if eb != want:
                        out.append(V('C17', 'model-rm-events', f"{tag}:{'left' if set(eb) - set(want) else 'over-deleted'}", f"after removing model {rm_model}: events {sorted(eb)} expected {sorted(want)}", scenario=sid))
                    ma = {r['id'] for r in ps['models']}
                    mb = {r['id'] for r in s['models']}
                    if ma - mb != {rm_model} & ma:
                        out.append(V('C17', 'model-rm-models', tag, f"after removing model {rm_model}: models {sorted(mb)} were {sorted(ma)}", scenario=sid))
                elif any(o['op'] == 'deploy' for o in op_between):
                    obs['c17.redeploys'] += 1
                elif ea != eb:
                    out.append(V('C17', 'events-changed-without-model-op', tag, f"events changed from {sorted(ea)} to {sorted(eb)}", scenario=sid))
            prev = (seq, i, s)
        # actions on ended processes are refused under the default configuration; kept ones are readable
        for o in h.ops:
            op = sc['ops'][o['i']]
            if op['op'] == 'act' and op['target'].get('tid') == '$':
                pid = op['target']['pid']
                if pid in ended and not keep and o['res']['ok']:
                    out.append(V('C17', 'action-accepted-on-removed-process', tag, f"an action on {pid} (ended, removed) was accepted", scenario=sid))
            if op['op'] == 'api' and op['what'] == 'proc_get':
                pid = op['pid']
                if pid in ended:
                    obs['c17.readability-probes'] += 1
                    if keep and not o['res']['ok']:
                        out.append(V('C17', 'kept-process-not-readable', tag, f"proc().get({pid}) failed with keep_processes: {o['res'].get('err')}", scenario=sid))
                    if not keep and o['res']['ok']:
                        out.append(V('C17', 'removed-process-still-readable', tag, f"proc().get({pid}) still answers after the process ended under the default configuration", scenario=sid))
        return out
