"""Family F-script (C14): JSON values crossing the script boundary in both directions, and template strings
with 0..4 {{expr}} occurrences; oracle = structural equality (numbers as doubles) and an independent
template evaluator."""
import json
import math

from common import IRQ, MSG, V, digest

STR = ['a', 'b', ' ', 'é', '名', '✓', '"', "'", '\\', '\n', '\t', '😀', '0', '$', '<', '/', '[', ':']
INTS = [0, 1, -1, 2 ** 31 - 1, 2 ** 31, 2 ** 31 + 1, -2 ** 31, -2 ** 31 - 1, 2 ** 32, -2 ** 32, 2 ** 53 - 1, -(2 ** 53 - 1), 3000000000, 255, 65536, 10 ** 12]
FLOATS = [0.1, 1.5, -0.25, 1e21, 5e-324, 123456.789, -1e-7, 2.5e10, 1e300, -1.5e19, 9.3e18, 2.0 ** 63, -(2.0 ** 63), 4.5e15]


def gen_value(r, d=0):
    k = r.random()
    if k < 0.08:
        return None
    if k < 0.18:
        return r.choice([True, False])
    if k < 0.42:
        return r.choice(INTS) if r.random() < 0.7 else r.randint(-10 ** 15, 10 ** 15)
    if k < 0.52:
        return r.choice(FLOATS)
    if k < 0.7 or d >= 3:
        return ''.join(r.choice(STR) for _ in range(r.randint(0, 8)))
    if k < 0.85:
        return [gen_value(r, d + 1) for _ in range(r.randint(0, 3))]
    keys = ['k', 'a b', '1x', 'é', 'key-with-dash', 'z', '']
    return {r.choice(keys) + str(i): gen_value(r, d + 1) for i in range(r.randint(0, 3))}


def same(a, b):
    """structural equality, numbers compared as doubles"""
    if isinstance(a, bool) or isinstance(b, bool):
        return a is b
    if isinstance(a, (int, float)) and isinstance(b, (int, float)):
        return float(a) == float(b)
    if type(a) != type(b):
        return False
    if isinstance(a, dict):
        return set(a) == set(b) and all(same(a[k], b[k]) for k in a)
    if isinstance(a, list):
        return len(a) == len(b) and all(same(x, y) for x, y in zip(a, b))
    return a == b


def first_diff(a, b, p=''):
    if isinstance(a, dict) and isinstance(b, dict):
        for k in sorted(set(a) | set(b)):
            if k not in a or k not in b:
                return p + '/' + k, a.get(k, '<absent>'), b.get(k, '<absent>')
            d = first_diff(a[k], b[k], p + '/' + k)
            if d:
                return d
        return None
    if isinstance(a, list) and isinstance(b, list):
        if len(a) != len(b):
            return p + '/len', len(a), len(b)
        for i, (x, y) in enumerate(zip(a, b)):
            d = first_diff(x, y, p + f'/{i}')
            if d:
                return d
        return None
    return None if same(a, b) else (p, a, b)


def classify(a, b):
    """what kind of value was damaged"""
    d = first_diff(a, b)
    if not d:
        return 'none'
    _, x, y = d
    if isinstance(x, bool):
        return 'bool'
    if isinstance(x, int):
        return 'int-beyond-32bit' if abs(x) >= 2 ** 31 else 'int-32bit'
    if isinstance(x, float):
        return 'float'
    if isinstance(x, str):
        return 'string'
    if x is None:
        return 'null'
    return type(x).__name__


def has_float(v):
    if isinstance(v, float):
        return True
    if isinstance(v, dict):
        return any(has_float(x) for x in v.values())
    if isinstance(v, list):
        return any(has_float(x) for x in v)
    return False


def js_len(v):
    s = json.dumps(v, separators=(',', ':'), ensure_ascii=False)
    return len(s.encode('utf-16-le')) // 2


# ---- templates
TVARS = {'x': 3, 'y': 'ab', 'z': True, 'n': 3000000000, 'w': 'é✓', 'arr': [1, 2, 3]}
# (the last three have side effects on their own copy of the variables: every expression of a string is evaluated
# independently, none sees what another one did)
TEXPRS = [('x', 3), ('x + 1', 4), ('x * 2', 6), ('y', 'ab'), ('z', True), ('y + "c"', 'abc'), ('w', 'é✓'), ('x > 2', True), ('1 + 1', 2), ('"lit"', 'lit'), ('x - 3', 0), ('y.length', 2),
          ('arr.shift()', 1), ('arr.length', 3), ('arr.push(9)', 4)]
TEXPR_FN = {'x': lambda V: V['x'], 'x + 1': lambda V: V['x'] + 1, 'x * 2': lambda V: V['x'] * 2, 'y': lambda V: V['y'], 'z': lambda V: V['z'], 'y + "c"': lambda V: V['y'] + 'c', 'w': lambda V: V['w'],
            'x > 2': lambda V: V['x'] > 2, '1 + 1': lambda V: 2, '"lit"': lambda V: 'lit', 'x - 3': lambda V: V['x'] - 3, 'y.length': lambda V: len(V['y'].encode('utf-16-le')) // 2,
            'arr.shift()': lambda V: V['arr'][0], 'arr.length': lambda V: len(V['arr']), 'arr.push(9)': lambda V: len(V['arr']) + 1}


def expect_under(s, typed, V):
    """the independent template evaluator applied to template string s under the variable values V"""
    import re
    if typed:
        return TEXPR_FN[re.fullmatch(r'\{\{\s*(.*?)\s*\}\}', s).group(1)](V)
    return re.sub(r'\{\{\s*(.*?)\s*\}\}', lambda m_: text_of(TEXPR_FN[m_.group(1)](V)), s)


LIT = ['', 'a=', ' ', ' and ', 'é:', '-', 'x', '%', ' b=', '(', ')', '$', '"']


def text_of(v):
    if isinstance(v, bool):
        return 'true' if v else 'false'
    if isinstance(v, str):
        return v
    return json.dumps(v)


def gen_template(r):
    n = r.choice([0, 1, 1, 2, 2, 3, 4])
    parts = []
    exprs = []
    if n == 1 and r.random() < 0.5:
        e = r.choice(TEXPRS)
        pad = r.choice(['', ' '])
        return '{{' + pad + e[0] + pad + '}}', e[1], 1, True
    expect = ''
    lit = r.choice(LIT)
    parts.append(lit)
    expect += lit
    for i in range(n):
        e = r.choice(TEXPRS)
        pad = r.choice(['', ' '])
        parts.append('{{' + pad + e[0] + pad + '}}')
        expect += text_of(e[1])
        lit = r.choice(LIT if i < n - 1 else LIT + ['', ''])
        if n == 1 and i == n - 1 and not parts[0] and not lit:
            lit = '.'      # keep it a mixed string (a sole template spanning the string is the typed case above)
        parts.append(lit)
        expect += lit
    s = ''.join(parts)
    return s, (expect if n else s), n, False


class ScriptFamily:
    name = 'script'

    def gen(self, rng, idx, opts):
        if opts.get('sub') == 'template':
            return self.gen_tpl(rng)
        if rng.random() < opts.get('secrets', 0.08):
            return self.gen_secrets(rng, opts)
        v = gen_value(rng)
        lit = json.dumps(v, ensure_ascii=False)          # JSON text is a valid JS literal
        steps = [
            {'id': 's1', 'acts': [{'id': 'a1', 'uses': 'acts.transform.code', 'params': 'return { out_ret: v };'}]},
            {'id': 's2', 'acts': [{'id': 'a2', 'uses': 'acts.transform.code', 'params': '$set("out_set", $get("v"));'}]},
            {'id': 's3', 'acts': [{'id': 'a3', 'uses': 'acts.transform.code', 'params': f'return {{ out_lit: {lit} }};'}]},
            {'id': 's4', 'acts': [{'id': 'a4', 'uses': 'acts.transform.code', 'params': f'$set("out_lit2", {lit});'}]},
        ]
        cond = None
        if not has_float(v):
            n = js_len(v)
            cond = n
            steps.append({'id': 's5', 'if': f'JSON.stringify(v).length == {n}', 'acts': [{'id': 'a5', 'uses': MSG, 'key': 'len_ok'}]})
        if isinstance(v, (int, float)) and not isinstance(v, bool) and float(v) == v and abs(v) < 2 ** 53 and (isinstance(v, int) or v == int(v) or abs(v) > 1e-300):
            steps.append({'id': 's6', 'if': f'v === {json.dumps(v)}', 'acts': [{'id': 'a6', 'uses': MSG, 'key': 'num_ok'}]})
        store = opts.get('store', 'mem')
        reload_ = rng.random() < opts.get('reload', 0.3) or store == 'sqlite'
        extra_in, extra_out = {}, {}
        if reload_:
            # "stored unchanged": the value is also put into the process env, the client is asked once (a quiescent point
            # at which the process is dropped from the cache / the engine restarted), then everything is read back
            steps.append({'id': 's7', 'acts': [{'id': 'a7', 'uses': 'acts.transform.code', 'params': '$env.ev = $get("v");'}, {'id': 'wait', 'uses': IRQ, 'key': 'wait'}]})
            steps.append({'id': 's8', 'acts': [{'id': 'a8', 'uses': 'acts.transform.code', 'params': '$set("back_set", $get("out_set")); $set("back_env", $env.ev); $set("back_v", v);'}]})
            extra_in = {'back_set': None, 'back_env': None, 'back_v': None}
            extra_out = dict(extra_in)
        wf = {'id': 'm1', 'inputs': dict({'v': None, 'out_ret': None, 'out_set': None, 'out_lit': None, 'out_lit2': None}, **extra_in),
              'outputs': dict({'out_ret': None, 'out_set': None, 'out_lit': None, 'out_lit2': None, 'v': None}, **extra_out), 'steps': steps}
        sc = {'id': '', 'family': 'script', 'sched': 'cur' + ('-reload-' + store if reload_ else ''), 'runtime': {'flavor': 'current'}, 'engine': {'store': store, 'keep_processes': True}, 'models': [json.dumps(wf, ensure_ascii=False)],
              'responder': {'mode': 'quiescent', 'rules': [{'match': {'key': 'wait'}, 'action': 'next'}]}, 'ops': [{'op': 'start', 'mid': 'm1', 'vars': {'pid': 'p1', 'v': v}}, {'op': 'run'}, {'op': 'snapshot', 'level': 'live'}]}
        if reload_:
            sc['faults'] = {'restart_at': [1]} if store == 'sqlite' else {'evict_at': [1]}
            if store == 'sqlite':
                sc['watchdog_ms'] = 60000
        nontriv = isinstance(v, (dict, list)) and len(v) > 0 or (isinstance(v, int) and abs(v) >= 2 ** 31) or isinstance(v, float) or (isinstance(v, str) and any(ord(c) > 127 or c in '"\\\n' for c in v))
        return {'scenarios': [sc], 'meta': {'v': v, 'cond': cond, 'sub': 'value', 'reload': reload_}, 'digest': digest([v, reload_, store]), 'nontrivial': bool(nontriv)}

    def gen_secrets(self, rng, opts):
        """the user variable `secrets` of a script is the `secrets` variable of ITS process: two processes of one engine
        with different keys, each sees exactly its own"""
        va, vb = [rng.choice(['t0k', 'é✓', 'x' * rng.randint(1, 5)]) + str(rng.randint(0, 999)) for _ in range(2)]
        code = '$set("sa", typeof secrets.A === "undefined" ? "undef" : secrets.A); $set("sb", typeof secrets.B === "undefined" ? "undef" : secrets.B);'
        wf = {'id': 'm1', 'inputs': {'secrets': {}, 'sa': None, 'sb': None}, 'outputs': {'sa': None, 'sb': None},
              'steps': [{'id': 's1', 'acts': [{'id': 'a1', 'uses': 'acts.transform.code', 'params': code}, {'id': 't1', 'uses': MSG, 'key': 'tk', 'params': '{{ secrets.A }}|{{ secrets.B }}'}]}]}
        order = rng.sample(['pa', 'pb'], 2) + (['pa'] if rng.random() < 0.5 else [])
        ops = []
        for i, p_ in enumerate(order):
            ops += [{'op': 'start', 'mid': 'm1', 'vars': {'pid': f'{p_}{i}', 'secrets': {'A': va} if p_ == 'pa' else {'B': vb}}}, {'op': 'run'}]
        ops.append({'op': 'snapshot', 'level': 'live'})
        sc = {'id': '', 'family': 'script', 'sched': 'cur-secrets', 'runtime': {'flavor': 'current'}, 'engine': {'store': 'mem', 'keep_processes': True}, 'models': [json.dumps(wf, ensure_ascii=False)],
              'responder': {'rules': []}, 'ops': ops}
        return {'scenarios': [sc], 'meta': {'sub': 'secrets', 'va': va, 'vb': vb, 'order': order, 'v': None, 'cond': None}, 'digest': digest([va, vb, order]), 'nontrivial': True}

    def gen_tpl(self, rng):
        tpls = [gen_template(rng) for _ in range(rng.randint(1, 4))]
        acts = []
        for i, (s, exp, n, typed) in enumerate(tpls):
            acts.append({'id': f't{i}', 'uses': MSG, 'key': f'tk{i}', 'params': s if rng.random() < 0.6 else {'nested': [s, {'deep': s}]}})
        wf = {'id': 'm1', 'inputs': dict(TVARS), 'steps': [{'id': 's1', 'acts': acts}]}
        rules = []
        twopass = rng.random() < 0.3
        if twopass:
            # the same nodes run a second time (the client sends the flow back once) after variables have changed:
            # a script in front moves x from -1 to 3 to 7 and y from "q" to "ab" to "é7"
            wf['inputs'].update(x=-1, y='q')
            wf['steps'].insert(0, {'id': 's0', 'acts': [{'id': 'inc', 'uses': 'acts.transform.code', 'params': '$set("x", x + 4); $set("y", y == "q" ? "ab" : "é7");'}]})
            wf['steps'].append({'id': 's2', 'acts': [{'id': 'again', 'uses': IRQ, 'key': 'again'}]})
            rules = [{'match': {'key': 'again'}, 'action': 'back', 'options': {'to': 's0'}, 'times': 1}, {'match': {'key': 'again'}, 'action': 'next', 'times': 5}]
        sc = {'id': '', 'family': 'script', 'sched': 'cur' + ('-twopass' if twopass else ''), 'runtime': {'flavor': 'current'}, 'engine': {'store': 'mem', 'keep_processes': True}, 'models': [json.dumps(wf, ensure_ascii=False)],
              'responder': {'mode': 'quiescent', 'rules': rules}, 'ops': [{'op': 'start', 'mid': 'm1', 'vars': {'pid': 'p1'}}, {'op': 'run'}, {'op': 'snapshot', 'level': 'live'}]}
        return {'scenarios': [sc], 'meta': {'tpls': tpls, 'wf': wf, 'sub': 'template', 'twopass': twopass}, 'digest': digest([[t[0] for t in tpls], twopass]), 'nontrivial': any(t[2] >= 1 for t in tpls)}

    def judge(self, c, opts, obs):
        h, sc, m = c['hist'][0], c['scenarios'][0], c['meta']
        sid = sc['id']
        out = []
        if m['sub'] == 'template':
            wf = m['wf']
            for i, (s, exp, n, typed) in enumerate(m['tpls']):
                d = [x for x in h.delivers if x['key'] == f'tk{i}']
                obs['c14.templates'] += 1
                obs[f'c14.templates-with-{n}-exprs'] += 1
                if not d:
                    out.append(V('C14', 'template-message-missing', '', f"msg act with params {s!r} produced no message", scenario=sid))
                    continue
                got = (d[0].get('inputs') or {}).get('params')
                nested = isinstance([st for st in wf['steps'] if st['id'] == 's1'][0]['acts'][i]['params'], dict)
                if nested:
                    ok = isinstance(got, dict) and isinstance(got.get('nested'), list) and len(got['nested']) == 2 and same(got['nested'][0], exp) and same((got['nested'][1] or {}).get('deep'), exp)
                    gv = got
                else:
                    ok = same(got, exp) and type(got) == type(exp)
                    gv = got
                if not ok:
                    kind = 'none' if n == 0 else 'sole-typed' if typed else f'{"one" if n == 1 else "several"}-in-text'
                    out.append(V('C14', 'template-result', kind, f"params {s!r} evaluated to {gv!r}, expected {exp!r}", scenario=sid))
                if m.get('twopass'):
                    obs['c14.templates-second-pass'] += 1
                    V2 = dict(TVARS, x=7, y='é7')
                    exp2 = expect_under(s, typed, V2) if n else s
                    if len(d) < 2:
                        out.append(V('C14', 'template-message-missing', 'second-pass', f"msg act with params {s!r} produced {len(d)} messages over two passes", scenario=sid))
                        continue
                    got2 = (d[1].get('inputs') or {}).get('params')
                    ok2 = (isinstance(got2, dict) and isinstance(got2.get('nested'), list) and len(got2['nested']) == 2 and same(got2['nested'][0], exp2) and same((got2['nested'][1] or {}).get('deep'), exp2)) if nested else (same(got2, exp2) and type(got2) == type(exp2))
                    if not ok2:
                        out.append(V('C14', 'template-result', f"second-pass:{'none' if n == 0 else 'sole-typed' if typed else 'in-text'}", f"second pass (x=7, y='é7'): params {s!r} evaluated to {got2!r}, expected {exp2!r}", scenario=sid))
            return out
        if m['sub'] == 'secrets':
            for i, p_ in enumerate(m['order']):
                pid = f'{p_}{i}'
                want = (m['va'], 'undef') if p_ == 'pa' else ('undef', m['vb'])
                cb = [e for e in h.cbs if e['what'] == 'complete' and e['pid'] == pid]
                obs['c14.secrets-processes'] += 1
                if not cb:
                    out.append(V('C14', 'value-run-failed', 'secrets', f"process {pid} did not complete", scenario=sid))
                    continue
                o = cb[0].get('outputs') or {}
                if (o.get('sa'), o.get('sb')) != want:
                    out.append(V('C14', 'user-variable-of-another-process', 'script', f"process {pid} (started {i + 1}. of {len(m['order'])}) saw secrets.A / secrets.B = {(o.get('sa'), o.get('sb'))!r} in its script, its own secrets say {want!r}", scenario=sid))
                d = [x for x in h.delivers if x['key'] == 'tk' and x['pid'] == pid]
                wt = (m['va'] + '|null') if p_ == 'pa' else ('null|' + m['vb'])
                gt = (d[0].get('inputs') or {}).get('params') if d else None
                if d and gt not in (wt, wt.replace('null', 'undefined'), wt.replace('null', '')):
                    out.append(V('C14', 'user-variable-of-another-process', 'template', f"process {pid}: template '{{{{ secrets.A }}}}|{{{{ secrets.B }}}}' gave {gt!r}, its own secrets give {wt!r}", scenario=sid))
            return out
        v = m['v']
        cb = [e for e in h.cbs if e['what'] == 'complete']
        obs['c14.values'] += 1
        if not cb:
            err = [e for e in h.cbs if e['what'] == 'error']
            out.append(V('C14', 'value-run-failed', classify(v, None) if False else ('error' if err else 'no-event'), f"process carrying {json.dumps(v)[:80]} did not complete: {[(e['inputs'] or {}).get('message') for e in err][:1]}", scenario=sid))
            return out
        o = cb[0].get('outputs') or {}
        for name, what in (('v', 'variable-as-output'), ('out_ret', 'into-script-and-returned'), ('out_set', 'into-script-get-set'), ('out_lit', 'script-literal-returned'), ('out_lit2', 'script-literal-set')):
            obs['c14.observations'] += 1
            if not same(o.get(name), v):
                out.append(V('C14', 'value-changed', f"{what}:{classify(v, o.get(name))}", f"{what}: {json.dumps(v)[:70]} came back as {json.dumps(o.get(name))[:70]}", scenario=sid))
        if m.get('reload'):
            for name, what in (('back_set', 'set-by-script-read-after-reload'), ('back_env', 'env-set-by-script-read-after-reload'), ('back_v', 'variable-read-after-reload')):
                obs['c14.observations-after-reload'] += 1
                want = v
                if name == 'back_env' and v is None:
                    continue            # an env entry holding null and a missing one read the same
                if not same(o.get(name), want):
                    out.append(V('C14', 'value-changed', f"{what}:{classify(v, o.get(name))}", f"{what}: {json.dumps(v)[:70]} came back as {json.dumps(o.get(name))[:70]}", scenario=sid))
        final = {t['nid']: t['state'] for t in h.final_tasks().values()}
        if m['cond'] is not None:
            obs['c14.condition-observations'] += 1
            if final.get('s5') != 'completed':
                out.append(V('C14', 'value-seen-by-condition', classify(v, None) if not isinstance(v, (dict, list)) else 'composite', f"condition JSON.stringify(v).length == {m['cond']} was false for {json.dumps(v)[:70]}", scenario=sid))
        if 's6' in [s['id'] for s in json.loads(sc['models'][0])['steps']]:
            obs['c14.condition-observations'] += 1
            if final.get('s6') != 'completed':
                out.append(V('C14', 'number-seen-by-condition', 'int-beyond-32bit' if isinstance(v, int) and abs(v) >= 2 ** 31 else 'number', f"condition v === {v} was false", scenario=sid))
        return out
