"""Family F-data (C07): generated programs over the set/code/irq fragment with unique value tags per write,
judged against a reference scoped environment.  Writers: set, $set, script return, action options (with /
without declared outputs).  Readers: script globals, $get, message input templates, step conditions,
terminal outputs.  Plus an isolation run: two processes of one model with disjoint tag ranges."""
import collections
import json

from common import IRQ, V, digest


class G:
    def __init__(self, r, base=100, readers=('R1', 'R2', 'R3', 'R4')):
        self.r = r
        self.n = 0
        self.tag = base
        self.probes = []          # (probe name, reader kind, variable, expected)
        self.rules = []
        self.expect_msgs = {}     # key -> expected value of the template input
        self.expect_steps = {}    # step id -> expected to run
        self.env = {'root': {'g0': 1, 'g1': 2}}
        self.penv = {'e0': 7}        # process env: the model's env section, then script assignments
        self.readers = readers
        self.declared_out = {}    # irq key -> (declared name, expected kept tag, dropped name)

    def nid(self, p):
        self.n += 1
        return f'{p}{self.n}'

    def newtag(self):
        self.tag += 1
        return self.tag

    def lookup(self, scope, name):
        if scope and name in self.env.get(scope, {}):
            return self.env[scope][name]
        if name in self.env['root']:
            return self.env['root'][name]
        return 'undef'

    def write(self, scope, name, tag):
        if scope and name in self.env.get(scope, {}):
            self.env[scope][name] = tag
        elif name in self.env['root']:
            self.env['root'][name] = tag

    def names(self, scope, foreign=False):
        ns = list(self.env['root']) + (list(self.env.get(scope, {})) if scope else [])
        if foreign:
            ns += [n for sc, d in self.env.items() if sc not in ('root', scope) for n in d]
        return ns

    def act(self, scope, kinds):
        k = self.r.choice(kinds)
        a = {'id': self.nid('a')}
        if k == 'W1':
            n = self.r.choice(self.names(scope))
            t = self.newtag()
            a.update(uses='acts.transform.set', params={n: t})
            self.write(scope, n, t)
        elif k == 'W2':
            n = self.r.choice(self.names(scope))
            t = self.newtag()
            a.update(uses='acts.transform.code', params=f'$set("{n}", {t});')
            self.write(scope, n, t)
        elif k == 'W3':
            n = self.r.choice(self.names(scope))
            t = self.newtag()
            a.update(uses='acts.transform.code', params=f'return {{ {n}: {t} }};')
            self.write(scope, n, t)
        elif k == 'W4':
            n = self.r.choice(self.names(scope))
            t = self.newtag()
            key = 'w' + a['id']
            a.update(uses=IRQ, key=key)
            self.rules.append({'match': {'key': key}, 'action': 'next', 'options': {n: t, '__priv': t}})
            self.write(scope, n, t)
        elif k == 'W5':
            ns = self.names(scope)
            n = self.r.choice(ns)
            other = self.r.choice([x for x in ns if x != n])
            t, t2 = self.newtag(), self.newtag()
            key = 'w' + a['id']
            a.update(uses=IRQ, key=key, outputs={n: None})
            self.rules.append({'match': {'key': key}, 'action': 'next', 'options': {n: t, other: t2}})
            self.write(scope, n, t)          # `other` is cut away by the declared outputs
        elif k == 'W6':
            # an act with declared outputs ended by skip: the options are cut down to the declared outputs all the same
            ns = self.names(scope)
            n = self.r.choice(ns)
            other = self.r.choice([x for x in ns if x != n])
            t, t2 = self.newtag(), self.newtag()
            key = 'w' + a['id']
            a.update(uses=IRQ, key=key, outputs={n: None})
            self.rules.append({'match': {'key': key}, 'action': 'skip', 'options': {n: t, other: t2}})
            self.write(scope, n, t)
        elif k == 'W7':
            n = self.r.choice(self.names(scope))
            a.update(uses='acts.transform.code', params=f'$set("{n}", null);')
            self.write(scope, n, None)
        elif k == 'W8':
            n = self.r.choice(self.names(scope))
            a.update(uses='acts.transform.set', params={n: None})
            self.write(scope, n, None)
        elif k == 'W9':
            # process env assigned by a script
            n = self.r.choice(['e0', 'e1', 'e2'])
            t = self.newtag()
            a.update(uses='acts.transform.code', params=f'$env.{n} = {t};')
            self.penv[n] = t
        elif k == 'W10':
            # ... by a script that fails afterwards; the act's own catch-all (no steps) takes the error
            n = self.r.choice(['e0', 'e1', 'e2'])
            t = self.newtag()
            a.update(uses='acts.transform.code', params=f'$env.{n} = {t}; throw new Error("after env");', catches=[{'steps': []}])
            self.penv[n] = t
        elif k == 'W11':
            # one answer carrying two variables that are held by two different enclosing tasks
            root_n = self.r.choice(list(self.env['root']))
            loc = list(self.env.get(scope, {})) if scope else []
            t, t2 = self.newtag(), self.newtag()
            key = 'w' + a['id']
            a.update(uses=IRQ, key=key)
            opts_ = {root_n: t}
            self.write(scope, root_n, t)
            if loc:
                opts_[loc[0]] = t2
                self.write(scope, loc[0], t2)
            self.rules.append({'match': {'key': key}, 'action': 'next', 'options': opts_})
        elif k in ('W12', 'W13'):
            # one set act / one script result writing two variables that are held by two different enclosing tasks
            root_n = self.r.choice(list(self.env['root']))
            loc = list(self.env.get(scope, {})) if scope else []
            t, t2 = self.newtag(), self.newtag()
            vals = {root_n: t}
            self.write(scope, root_n, t)
            if loc:
                vals[loc[0]] = t2
                self.write(scope, loc[0], t2)
            if self.r.random() < 0.5:
                vals = dict(reversed(list(vals.items())))
            if k == 'W12':
                a.update(uses='acts.transform.set', params=vals)
            else:
                a.update(uses='acts.transform.code', params='return { ' + ', '.join(f'{n}: {v}' for n, v in vals.items()) + ' };')
        elif k == 'R5':
            n = self.r.choice(['e0', 'e1', 'e2'])
            p = 'p' + str(len(self.probes))
            a.update(uses='acts.transform.code', params=f'$set("{p}", ($env.{n} === undefined || $env.{n} === null ? "undef" : $env.{n}));')
            self.probes.append((p, 'R5', n, self.penv.get(n, 'undef')))
        elif k in ('R1', 'R4'):
            n = self.r.choice(self.names(scope, foreign=True) + ['__priv'])
            p = 'p' + str(len(self.probes))
            expr = f'(typeof {n} === "undefined" ? "undef" : {n})' if k == 'R1' else f'($get("{n}") === null || $get("{n}") === undefined ? "undef" : $get("{n}"))'
            a.update(uses='acts.transform.code', params=f'$set("{p}", {expr});')
            v = self.lookup(scope, n) if n != '__priv' else 'undef'
            if v is None and k == 'R4':
                v = 'undef'          # the $get probe maps null and undefined to "undef"
            self.probes.append((p, k, n, v))
        elif k == 'R2':
            n = self.r.choice(self.names(scope))
            key = 'r' + a['id']
            a.update(uses=IRQ, key=key, inputs={'v': '{{ ' + n + ' }}'})
            self.rules.append({'match': {'key': key}, 'action': 'next'})
            v = self.lookup(scope, n)
            self.expect_msgs[key] = 'undef' if v is None else v
        return a

    def step(self, kinds):
        sid = self.nid('s')
        st = {'id': sid}
        if self.r.random() < 0.6:
            ln = 'l' + sid
            init = self.newtag()
            st['inputs'] = {ln: init}
            self.env[sid] = {ln: init}
        if 'R3' in self.readers and self.r.random() < 0.3:
            n = self.r.choice(self.names(None))
            cur = self.lookup(None, n)
            if cur is None:
                cur = 'null'
            ok = self.r.random() < 0.5
            st['if'] = f'{n} == {cur if ok else 999}'
            self.expect_steps[sid] = ok
            if not ok:
                st['acts'] = []
                self.env.pop(sid, None)
                return st
        st['acts'] = [self.act(sid, kinds) for _ in range(self.r.randint(1, 4))]
        return st

    def wf(self, kinds):
        steps = []
        marks = []      # (step id, root values when it starts, root values when it ends, does it run)
        for _ in range(self.r.randint(2, 4)):
            before = dict(self.env['root'])
            st = self.step(kinds)
            steps.append(st)
            marks.append((st['id'], before, dict(self.env['root']), self.expect_steps.get(st['id'], True)))
        # a step that hands a workflow variable on as a declared output: its successor's messages carry the variable's
        # CURRENT value in their inputs (the outputs of the predecessor are evaluated when the message is made)
        self.handed = []
        for i in range(len(steps) - 1):
            if self.r.random() < 0.35 and marks[i][3] and marks[i + 1][3] and 'if' not in steps[i + 1]:
                g = self.r.choice(['g0', 'g1'])
                steps[i]['outputs'] = {g: None}
                self.handed.append((steps[i + 1]['id'], g, marks[i + 1][1][g], marks[i + 1][2][g]))
        inputs = dict(g0=1, g1=2)
        outputs = {'g0': None, 'g1': None}
        for p, _, _, _ in self.probes:
            inputs[p] = None
            outputs[p] = None
        return {'id': 'm1', 'env': {'e0': 7}, 'inputs': inputs, 'outputs': outputs, 'steps': steps}


def fork_case(rng):
    """two branches of one step side by side: the client answers the irq of the first with a new value for a workflow
    variable and only then the irq of the second; what runs behind that second irq reads the variable"""
    T = rng.randint(100, 999)
    reader = rng.choice(['R1', 'R4', 'R2', 'Rset', 'Rif'])
    step_out = rng.random() < 0.6
    racts = [{'id': 'w2', 'uses': IRQ, 'key': 'w2'}]
    if reader == 'R1':
        racts.append({'id': 'rd', 'uses': 'acts.transform.code', 'params': '$set("seen", x);'})
    elif reader == 'R4':
        racts.append({'id': 'rd', 'uses': 'acts.transform.code', 'params': '$set("seen", $get("x"));'})
    elif reader == 'Rset':
        racts.append({'id': 'rd', 'uses': 'acts.transform.set', 'params': {'seen': '{{ x }}'}})
    elif reader == 'R2':
        racts.append({'id': 'rd', 'uses': IRQ, 'key': 'rd', 'inputs': {'v': '{{ x }}'}})
    else:
        racts.append({'id': 'rd', 'uses': 'acts.transform.set', 'if': f'x == {T}', 'params': {'seen': T}})
    fork = {'id': 'fork', 'branches': [{'id': 'b1', 'if': 'true', 'steps': [{'id': 's1', 'acts': [{'id': 'w1', 'uses': IRQ, 'key': 'w1'}]}]},
                                       {'id': 'b2', 'if': 'true', 'steps': [{'id': 's2', 'acts': racts}]}]}
    if step_out:
        fork['outputs'] = {'x': None}
    if rng.random() < 0.5:
        fork['branches'].reverse()
    pre = []
    if rng.random() < 0.5:
        pre = [{'id': 'pre', 'acts': [{'id': 'pa', 'uses': 'acts.transform.set', 'params': {'x': 1}}]}]      # a predecessor whose outputs the fork starts from
    wf = {'id': 'm1', 'inputs': {'x': 0, 'seen': -1}, 'outputs': {'seen': None, 'x': None}, 'steps': pre + [fork]}
    rules = [{'match': {'key': 'rd'}, 'action': 'next'}]
    ops = [{'op': 'start', 'mid': 'm1', 'vars': {'pid': 'p1'}}, {'op': 'quiesce'},
           {'op': 'act', 'target': {'pid': 'p1', 'key': 'w1', 'state': 'interrupted'}, 'action': 'next', 'options': {'x': T}}, {'op': 'quiesce'},
           {'op': 'act', 'target': {'pid': 'p1', 'key': 'w2', 'state': 'interrupted'}, 'action': 'next', 'options': {}}, {'op': 'run'}, {'op': 'snapshot', 'level': 'live'}]
    return wf, rules, ops, {'T': T, 'reader': reader, 'step_out': step_out}


def handover_case(rng):
    """step1 hands a workflow variable on as a declared output without holding a copy of its own; step3 writes the
    variable; the client sends the flow back to step2: its second run starts after the write and receives it"""
    T = rng.randint(100, 999)
    via = rng.choice(['act-template', '$get'])      # (what the step's own message shows as inputs is not judged: value at hand-over or current value, the statement does not decide)
    a2 = {'id': 'a2', 'uses': IRQ, 'key': 'a2'}
    if via == 'act-template':
        a2['inputs'] = {'seen': '{{ x }}'}
    elif via == '$get':
        a2['inputs'] = {'seen': "{{ $get('x') }}"}
    wf = {'id': 'm1', 'inputs': {'x': 0}, 'outputs': {'x': None}, 'steps': [
        {'id': 'step1', 'outputs': {'x': None}, 'acts': [{'id': 'a1', 'uses': IRQ, 'key': 'a1'}]},
        {'id': 'step2', 'acts': [a2]},
        {'id': 'step3', 'acts': [{'id': 'a3', 'uses': IRQ, 'key': 'a3', 'outputs': {'x': None}}, {'id': 'a4', 'uses': IRQ, 'key': 'a4'}]}]}
    rules = [{'match': {'key': 'a3'}, 'action': 'next', 'options': {'x': T}, 'times': 5}, {'match': {'key': 'a4'}, 'action': 'back', 'options': {'to': 'step2'}, 'times': 1},
             {'match': {'uses': IRQ}, 'action': 'next', 'times': 20}]
    ops = [{'op': 'start', 'mid': 'm1', 'vars': {'pid': 'p1'}}, {'op': 'run'}, {'op': 'snapshot', 'level': 'live'}]
    return wf, rules, ops, {'T': T, 'reader': via, 'step_out': True, 'handover': True}


def deep_output_case(rng):
    """a value that exists only in the outputs of a task two or more levels below the scope that declares its name: a
    script in the outputs of a step inside a branch (inside a branch), or a declared output handed over by the client
    together with an error that the act's own catch (no steps) takes.  A later step reads the name"""
    T = rng.randint(100, 999)
    via = rng.choice(['step-output-script', 'step-output-script', 'caught-error-output'])
    show = {'id': 'sshow', 'acts': [{'id': 'sh', 'uses': IRQ, 'key': 'show', 'inputs': {'shown': '{{ total }}'}}]}
    if via == 'step-output-script':
        a_ = rng.randint(1, 50)
        calc = {'id': 'calc', 'inputs': {'a': a_, 'b': T - a_}, 'outputs': {'total': '{{ a + b }}'}}
        if rng.random() < 0.5:
            calc['acts'] = [{'id': 'cw', 'uses': IRQ, 'key': 'cw'}]
        inner = [calc]
        for d in range(rng.randint(1, 2)):
            inner = [{'id': f'f{d}', 'branches': [{'id': f'fb{d}', 'if': 'true', 'steps': inner}] + ([{'id': f'fo{d}', 'if': 'true', 'steps': [{'id': f'fs{d}', 'acts': [{'id': f'fa{d}', 'uses': IRQ, 'key': f'fa{d}'}]}]}] if rng.random() < 0.4 else [])}]
        steps = inner + [show]
        rules = [{'match': {'uses': IRQ}, 'action': 'next', 'times': 20}]
    else:
        code = rng.choice(['refused', 'e1'])
        ask = {'id': 'ask', 'uses': IRQ, 'key': 'ask', 'outputs': {'total': None}, 'catches': [{'on': code} if rng.random() < 0.6 else {'steps': []}]}
        s1 = {'id': 'step1', 'acts': [ask]}
        steps = [s1] if rng.random() < 0.5 else [{'id': 'f0', 'branches': [{'id': 'fb0', 'if': 'true', 'steps': [s1]}]}]
        steps = steps + [show]
        rules = [{'match': {'key': 'ask'}, 'action': 'error', 'options': {'ecode': code, 'message': 'no', 'total': T}, 'times': 1}, {'match': {'uses': IRQ}, 'action': 'next', 'times': 20}]
    wf = {'id': 'm1', 'inputs': {'total': 0}, 'outputs': {'total': None}, 'steps': steps}
    ops = [{'op': 'start', 'mid': 'm1', 'vars': {'pid': 'p1'}}, {'op': 'run'}, {'op': 'snapshot', 'level': 'live'}]
    return wf, rules, ops, {'T': T, 'reader': via, 'step_out': True, 'deep': True}


def loop_scope_case(rng):
    """the loop idiom (a step inside a branch jumps back to an earlier step) with a local of the same name in the
    looping step and in its sibling: every round of `work` starts with its own `tmp`, and what it writes to `tmp` never
    lands in the sibling `check` (which is not an ancestor of `work`, although `work` is started from below it)"""
    N = rng.randint(2, 3)
    t0, t9 = rng.randint(0, 5), rng.randint(50, 99)
    work = {'id': 'work', 'inputs': {'tmp': t0}, 'acts': [{'id': 'wa', 'uses': 'acts.transform.code', 'params': 'return { seen: seen.concat([tmp]), n: n + 1, tmp: tmp + 1 };'}]}
    if rng.random() < 0.4:
        work['acts'].append({'id': 'wq', 'uses': IRQ, 'key': 'wq'})
    again = {'id': 'again', 'if': f'n < {N}', 'steps': [{'id': 'jump', 'next': 'work'}]}
    if rng.random() < 0.4:
        again['steps'].insert(0, {'id': 'pj', 'acts': [{'id': 'pja', 'uses': IRQ, 'key': 'pja'}]})
    wf = {'id': 'm1', 'inputs': {'n': 0, 'seen': []}, 'outputs': {'n': None, 'seen': None}, 'steps': [work, {'id': 'check', 'inputs': {'tmp': t9}, 'branches': [again]}]}
    rules = [{'match': {'uses': IRQ}, 'action': 'next', 'times': 50}]
    ops = [{'op': 'start', 'mid': 'm1', 'vars': {'pid': 'p1'}}, {'op': 'run'}, {'op': 'snapshot', 'level': 'live'}]
    return wf, rules, ops, {'T': t0, 'reader': 'loop', 'step_out': False, 'loop': True, 'N': N, 't9': t9}


class DataFamily:
    name = 'data'

    def gen_fork(self, rng, idx, opts):
        r_ = rng.random()
        wf, rules, ops, m = fork_case(rng) if r_ < 0.5 else handover_case(rng) if r_ < 0.65 else deep_output_case(rng) if r_ < 0.85 else loop_scope_case(rng)
        rt = rng.choice([{'flavor': 'current'}, {'flavor': 'current', 'chaos': {'max_yields': 3, 'seed': rng.randrange(1, 1 << 40)}}, {'flavor': 'multi', 'workers': 2, 'chaos': {'max_yields': 2, 'seed': rng.randrange(1, 1 << 40)}}])
        sc = {'id': '', 'family': 'data', 'sched': rt['flavor'] + '-fork', 'runtime': rt, 'engine': {'store': opts.get('store', 'mem'), 'keep_processes': True}, 'models': [json.dumps(wf)],
              'responder': {'mode': 'quiescent', 'rules': rules}, 'ops': ops}
        return {'scenarios': [sc], 'meta': dict(m, sub='fork', wf=wf), 'digest': digest([wf, m['T']]), 'nontrivial': True}

    def judge_fork(self, c, opts, obs):
        out = []
        h, sc, m = c['hist'][0], c['scenarios'][0], c['meta']
        sid = sc['id']
        if m.get('handover'):
            obs[f"c07.handover-reads:{m['reader']}"] += 1
            if m['reader'] == 'step-inputs':
                ms = [(e.get('inputs') or {}).get('x') for e in h.delivers if e['type'] == 'step' and e['nid'] == 'step2' and e['state'] == 'created']
            else:
                ms = [(e.get('inputs') or {}).get('seen') for e in h.delivers if e['key'] == 'a2' and e['state'] == 'created']
            if ms != [0, m['T']]:
                out.append(V('C07', 'read-your-writes', f"handed-on-output:{m['reader']}:{'stale' if len(ms) == 2 and ms[1] == 0 else 'other'}",
                             f"step2 ran twice (the client sent the flow back after x={m['T']} had been written): its two runs received x = {ms} through {m['reader']}, expected [0, {m['T']}]", scenario=sid))
            return out
        if m.get('loop'):
            obs['c07.loops-with-a-sibling-local-of-the-same-name'] += 1
            cb = [e for e in h.cbs if e['what'] == 'complete']
            if not cb:
                out.append(V('C07', 'program-did-not-complete', 'loop-scope', f"program did not complete: {[(e['what'], e['state']) for e in h.cbs if e['what'] != 'start']}", scenario=sid))
                return out
            o = cb[0].get('outputs') or {}
            if o.get('seen') != [m['T']] * m['N'] or o.get('n') != m['N']:
                leak = any(isinstance(x, int) and x >= m['t9'] for x in (o.get('seen') or []))
                out.append(V('C07', 'scope-leak' if leak else 'read-your-writes', f"loop:{'sibling-local-read' if leak else 'other'}",
                             f"{m['N']} rounds of a step whose local tmp starts at {m['T']} (its sibling declares tmp = {m['t9']}): the rounds saw tmp = {o.get('seen')}, n = {o.get('n')}", scenario=sid))
            for t in h.final_tasks().values():
                if t['nid'] == 'check' and (t.get('data') or {}).get('tmp') != m['t9']:
                    out.append(V('C07', 'scope-leak', 'loop:sibling-local-written', f"the local tmp of step check is {(t.get('data') or {}).get('tmp')}, it was declared as {m['t9']} and nothing below check writes it", scenario=sid))
                    break
            return out
        if m.get('deep'):
            obs[f"c07.deep-outputs:{m['reader']}"] += 1
            cb = [e for e in h.cbs if e['what'] == 'complete']
            if not cb:
                out.append(V('C07', 'program-did-not-complete', 'deep-output', f"program did not complete: {[(e['what'], e['state']) for e in h.cbs if e['what'] != 'start']}", scenario=sid))
                return out
            ms = [(e.get('inputs') or {}).get('shown') for e in h.delivers if e['key'] == 'show' and e['state'] == 'created']
            if ms != [m['T']]:
                out.append(V('C07', 'read-your-writes', f"message-input:{m['reader']}:{'stale' if ms == [0] else 'other'}", f"total = {m['T']} was written through {m['reader']} below the declaring workflow; the act of the next step received {ms}", scenario=sid))
            if (cb[0].get('outputs') or {}).get('total') != m['T']:
                out.append(V('C07', 'terminal-output-value', f"deep-output:{m['reader']}", f"terminal output total = {(cb[0].get('outputs') or {}).get('total')!r}, last value written was {m['T']}", scenario=sid))
            return out
        obs[f"c07.fork-reads:{m['reader']}"] += 1
        cb = [e for e in h.cbs if e['what'] == 'complete']
        if not cb:
            out.append(V('C07', 'program-did-not-complete', 'fork', f"fork program did not complete: {[(e['what'], e['state']) for e in h.cbs if e['what'] != 'start']}", scenario=sid))
            return out
        o = cb[0].get('outputs') or {}
        if m['reader'] == 'R2':
            ms = [e for e in h.delivers if e['key'] == 'rd' and e['state'] == 'created']
            seen = (ms[0].get('inputs') or {}).get('v') if ms else 'nomsg'
        else:
            seen = o.get('seen')
        name = {'R1': 'script-global', 'R4': '$get', 'R2': 'message-input', 'Rset': 'set-template', 'Rif': 'act-condition'}[m['reader']]
        if seen != m['T']:
            out.append(V('C07', 'read-your-writes', f"{name}:sibling-branch:{'stale' if seen in (0, 1, -1) else 'other'}:{'step-declares-output' if m['step_out'] else 'plain'}",
                         f"a write of x={m['T']} by the answer in one branch, then the other branch reads x through {name}: saw {seen!r}", scenario=sid))
        if o.get('x') != m['T']:
            out.append(V('C07', 'terminal-output-value', 'fork', f"terminal output x = {o.get('x')!r}, last value written was {m['T']}", scenario=sid))
        return out
    WRITERS = ['W1', 'W2', 'W3', 'W4', 'W5', 'W6', 'W7', 'W8', 'W9', 'W10', 'W11', 'W12', 'W13']

    def gen(self, rng, idx, opts):
        if rng.random() < opts.get('fork', 0.12):
            return self.gen_fork(rng, idx, opts)
        readers = opts.get('readers', ['R1', 'R2', 'R3', 'R4', 'R5'])
        kinds = self.WRITERS + [r for r in readers if r != 'R3']
        if rng.random() < opts.get('envheavy', 0.15):
            # programs that mostly assign and read the process env (which the model declares too)
            kinds = kinds + ['W9', 'R5', 'R5'] * 6
        g = G(rng, 100, readers)
        wf = g.wf(kinds)
        rt = rng.choice([{'flavor': 'current'}, {'flavor': 'current', 'chaos': {'max_yields': 3, 'seed': rng.randrange(1, 1 << 40)}}, {'flavor': 'multi', 'workers': 2, 'chaos': {'max_yields': 2, 'seed': rng.randrange(1, 1 << 40)}}])
        store = opts.get('store', 'mem')
        sc = {'id': '', 'family': 'data', 'sched': rt['flavor'], 'runtime': rt, 'engine': {'store': store, 'keep_processes': True}, 'models': [json.dumps(wf)],
              'responder': {'mode': 'quiescent', 'rules': g.rules}, 'ops': [{'op': 'start', 'mid': 'm1', 'vars': {'pid': 'p1'}}, {'op': 'run', 'snap': opts.get('snap', 'none')}, {'op': 'snapshot', 'level': opts.get('snap', 'live') if opts.get('snap', 'none') != 'none' else 'live'}]}
        if store == 'mem' and rng.random() < opts.get('evict', 0.3):
            # the process is dropped from the cache at quiescent points and continues from its stored rows
            sc['faults'] = {'evict_at': sorted(set(rng.randint(1, 8) for _ in range(rng.randint(1, 3))))}
            sc['sched'] += '+evict'
        meta = {'handed': list(getattr(g, 'handed', [])), 'penv': dict(g.penv), 'wf': wf, 'probes': g.probes, 'msgs': g.expect_msgs, 'steps': g.expect_steps, 'root': dict(g.env['root']), 'sub': 'single'}
        return {'scenarios': [sc], 'meta': meta, 'digest': digest(wf), 'nontrivial': len(g.probes) + len(g.expect_msgs) >= 1}

    def judge(self, c, opts, obs):
        out = []
        h, sc, m = c['hist'][0], c['scenarios'][0], c['meta']
        if m.get('sub') == 'fork':
            return self.judge_fork(c, opts, obs)
        sid = sc['id']
        cb = [e for e in h.cbs if e['what'] == 'complete']
        obs['c07.programs'] += 1
        if not cb:
            errs = [(e['what'], e['state'], (e.get('inputs') or {}).get('message')) for e in h.cbs if e['what'] != 'start']
            out.append(V('C07', 'program-did-not-complete', 'error' if errs else 'no-event', f"generated data-flow program did not complete: {errs}", scenario=sid))
            return out
        o = cb[0].get('outputs') or {}
        race = h.race_tag('p1')
        for pn, k, name, expv in m['probes']:
            obs[f'c07.reads:{k}'] += 1
            gv = o.get(pn)
            if gv != expv:
                scope = 'private-key' if name == '__priv' else 'root' if name in m['root'] else 'foreign-scope' if expv == 'undef' else 'step-local'
                kind_ = 'stale' if isinstance(gv, int) and scope in ('root', 'step-local') and (not isinstance(expv, int) or gv < expv) else 'leak' if expv == 'undef' else 'other'
                out.append(V('C07', 'read-your-writes', f"{ {'R1': 'script-global', 'R4': '$get', 'R5': '$env'}[k]}:{scope if k != 'R5' else 'process-env'}:{kind_}:{race}",
                             f"reader {k} of {name}: saw {gv!r}, the reference environment says {expv!r}", scenario=sid))
        for key, expv in m['msgs'].items():
            obs['c07.reads:R2'] += 1
            ms = [e for e in h.delivers if e['key'] == key and e['state'] == 'created']
            gv = (ms[0].get('inputs') or {}).get('v') if ms else 'nomsg'
            if gv is None:
                gv = 'undef'
            if gv != expv:
                out.append(V('C07', 'read-your-writes', f"message-input:{'stale' if isinstance(gv, int) and isinstance(expv, int) and gv < expv else 'other'}:{race}", f"message input template of {key}: saw {gv!r}, expected {expv!r}", scenario=sid))
        fin = {t['nid']: t['state'] for t in h.final_tasks().values()}
        for s_, ok in m['steps'].items():
            obs['c07.reads:R3'] += 1
            if fin.get(s_) != ('completed' if ok else 'skipped'):
                out.append(V('C07', 'read-your-writes', f'step-condition:{race}', f"step {s_} with a condition on the current value ended {fin.get(s_)}, expected {'completed' if ok else 'skipped'}", scenario=sid))
        for sid_, g_, at_start, at_end in m.get('handed') or []:
            # (the completed message is not judged: whether its inputs show the value at hand-over or the current one
            # depends on whether the predecessor holds a copy of its own, and the statement does not decide it)
            for state, want in (('created', at_start),):
                ms = [e for e in h.delivers if e['type'] == 'step' and e['nid'] == sid_ and e['state'] == state]
                if not ms:
                    continue
                obs['c07.reads:step-message-inputs'] += 1
                gv = (ms[0].get('inputs') or {}).get(g_)
                if gv != want:
                    out.append(V('C07', 'read-your-writes', f"step-message-inputs:{state}:{'stale' if isinstance(gv, int) and isinstance(want, int) and gv < want else 'other'}:{race}",
                                 f"the {state} message of step {sid_} carries {g_}={gv!r} in its inputs (the declared output of its predecessor), the variable was {want!r} at that moment", scenario=sid))
        procs = h.final_procs()
        if 'p1' in procs and m.get('penv') is not None:
            obs['c07.reads:ENV'] += 1
            if procs['p1'].get('env') != m['penv']:
                out.append(V('C07', 'process-env', '', f"process env at the end {procs['p1'].get('env')}, reference {m['penv']}", scenario=sid))
        for nm in ('g0', 'g1'):
            obs['c07.reads:OUT'] += 1
            if o.get(nm) != m['root'][nm]:
                out.append(V('C07', 'terminal-output-value', race, f"terminal output {nm} = {o.get(nm)!r}, last value written was {m['root'][nm]!r}", scenario=sid))
        want = set(m['wf']['outputs']) | {'data'}
        if set(o) != want:
            out.append(V('C07', 'terminal-output-keys', 'extra' if set(o) - want else 'missing', f"terminal outputs have keys {sorted(o)}, declared {sorted(want)}", scenario=sid))
        # private keys and undeclared options never leave their task: no message / output may carry them
        for e in h.delivers:
            for side in ('inputs', 'outputs'):
                d = e.get(side) or {}
                if '__priv' in d and not (e['state'] != 'created' and e['uses'] == IRQ and side == 'inputs' and False):
                    # the act that received the option may show it in its own messages; any other task may not
                    owner = any(r['match'].get('key') == e['key'] and '__priv' in (r.get('options') or {}) for r in sc['responder']['rules'])
                    if not owner:
                        out.append(V('C07', 'private-key-leaked', f"{e['type']}:{side}", f"{e['type']} {e['nid']} message {side} carry __priv", scenario=sid))
        return out


class IsolationFamily:
    """two (or more) processes of the same data-flow model with disjoint tag ranges: no tag crosses"""
    name = 'dataiso'

    def gen(self, rng, idx, opts):
        # one model, values come from start vars so that each process has its own tag range
        g = G(rng, 0, ())
        n = rng.randint(2, 4)
        steps = []
        for i in range(rng.randint(2, 4)):
            acts = []
            for j in range(rng.randint(1, 3)):
                k = rng.choice(['set', 'code', 'irq', 'probe'])
                aid = f'a{i}_{j}'
                if k == 'set':
                    acts.append({'id': aid, 'uses': 'acts.transform.set', 'params': {'g0': '{{ base + %d }}' % (i * 10 + j)}})
                elif k == 'code':
                    acts.append({'id': aid, 'uses': 'acts.transform.code', 'params': '$set("g1", base + %d);' % (i * 10 + j)})
                elif k == 'irq':
                    acts.append({'id': aid, 'uses': IRQ, 'key': 'k' + aid, 'inputs': {'v': '{{ g0 }}', 'w': '{{ g1 }}'}})
                else:
                    acts.append({'id': aid, 'uses': 'acts.transform.code', 'params': '$set("p%d_%d", [g0, g1, base]);' % (i, j)})
            steps.append({'id': f's{i}', 'acts': acts})
        probes = [a['params'].split('"')[1] for s in steps for a in s['acts'] if a['uses'] == 'acts.transform.code' and a['params'].startswith('$set("p')]
        inputs = {'base': 0, 'g0': 0, 'g1': 0}
        outputs = {'g0': None, 'g1': None, 'base': None}
        for p in probes:
            inputs[p] = None
            outputs[p] = None
        wf = {'id': 'm1', 'inputs': inputs, 'outputs': outputs, 'steps': steps}
        items = [{'mid': 'm1', 'vars': {'pid': f'p{i}', 'base': (i + 1) * 1000, 'g0': (i + 1) * 1000, 'g1': (i + 1) * 1000}} for i in range(n)]
        rt = {'flavor': 'multi', 'workers': rng.choice([2, 4]), 'chaos': {'max_yields': 3, 'seed': rng.randrange(1, 1 << 40)}}
        mode = rng.choice(['quiescent', 'inline'])
        sc = {'id': '', 'family': 'dataiso', 'sched': 'mt-' + mode, 'runtime': rt, 'engine': {'store': 'mem', 'keep_processes': True, 'cache_cap': rng.choice([1024, 1024, 2, 1])}, 'models': [json.dumps(wf)],
              'responder': {'mode': mode, 'order': 'seeded', 'rules': [{'match': {'uses': IRQ}, 'action': 'next', 'times': 1000}]}, 'seed': rng.randrange(1 << 30),
              'ops': [{'op': 'starts', 'items': items, 'threads': min(n, 4)}, {'op': 'run'}, {'op': 'snapshot', 'level': 'live'}]}
        return {'scenarios': [sc], 'meta': {'wf': wf, 'n': n}, 'digest': digest([wf, n]), 'nontrivial': True}

    def judge(self, c, opts, obs):
        out = []
        h, sc, m = c['hist'][0], c['scenarios'][0], c['meta']
        sid = sc['id']

        def tags(v, acc):
            if isinstance(v, bool):
                return
            if isinstance(v, int) and v >= 1000:
                acc.add(v // 1000)
            elif isinstance(v, dict):
                for x in v.values():
                    tags(x, acc)
            elif isinstance(v, list):
                for x in v:
                    tags(x, acc)
        for e in h.delivers + h.cbs:
            pid = e['pid']
            own = int(pid[1:]) + 1
            acc = set()
            ins = dict(e.get('inputs') or {})
            tags(ins, acc)
            tags(e.get('outputs') or {}, acc)
            obs['c07.isolation-observations'] += 1
            if acc - {own}:
                out.append(V('C07', 'value-crossed-process', e['t'] + ':' + h.race_tag(pid), f"{e['t']} of {pid} ({e.get('nid')}) carries a value of process range {sorted(acc - {own})}", scenario=sid))
        return out
